#!/usr/bin/env python3
"""Regenerates /verif/MANIFEST.json from the table below (keeps it valid at all times)."""
import json, os, sys
HOME = os.path.dirname(os.path.dirname(os.path.abspath(__file__)))

CLAIMED = {
 "C04": dict(engine="E-sched", level="exploration", design_ref="DESIGN.md §4 E-sched / C04",
   technique="deterministic simulation: seeded schedules/iteration orders, simulated target with injected plan requests and step cut-offs, online invariants on the callback history",
   text="Seeded search over acyclic graphs x iteration orders of every dependency/sink set x guard valuations x dynamic plan requests x step cut-offs, against the real ExecutionController (directly and inside NumpyInterpreter.run/run_single_step); invariants V1-V6 (once, deps-first, requested-first, complete, bounded, fresh plan after cut-off) checked at every callback. Evidence, not proof: sampled schedules. Histories also contain steps the caller abandons at an event (generator closed mid-step, wired modes included), requests handed over as one-shot iterators, phases that reuse statement ids, and phase objects made by copy() from a draft phase; every fifth run drives builder programs on the real interpreter with real guards (guard faithfulness). Later additions: a nested stepper advanced inside callbacks of the observed step, errors of eight classes inside statements, guard values that are numpy booleans or numbers, a stale suspended step closed during a later one, two target objects for one controller, and (20% of runs) the controller taken from dagrt.language compiled without assert statements (python -O).",
   note="Trusts: my Monitor's reading of the property (requested statements and their unvisited dependencies run before anything else); graphs are well-formed (acyclic, closed). Guards/requests are simulated, expressions are not evaluated here (C01/C02 do that)."),
}

CLAIMED.update({
 "C01": dict(engine="E-step", level="exploration", design_ref="DESIGN.md §4 E-step / C01, Appendix A",
   technique="deterministic simulation: seeded caller histories over seeded builder programs, interpreter schedules owned by the simulator, lock-step refinement of two real steppers against an executable reference model",
   text="Seeded search over builder programs x initial states x caller histories (run(max_steps), run(t_end), run_single_step sequences, continuing after failed/switched/raised steps); the interpreter additionally runs under tape-chosen dependency/sink iteration orders re-drawn every step. Every event and the persistent store/next_phase after every step of NumpyInterpreter and of the exec()'d generated class are compared with a reference stepper that executes the builder calls in written order. Sampled, not exhaustive. Histories also create further stepper instances of the same description (own function tables, own state) between caller operations, sometimes hand the interpreter the very description objects the generator has just worked on, and register user functions under plain names that the program also uses for variables. Later additions: attribute lookups, tuple-valued and list-valued call results, tuples as call arguments, triangular loop nests, a mirrored second loop after an array fill, a loop variable reused as an ordinary variable, phases taken by as_execution_phase() from a builder that then receives more calls, a generator object that made another description's class before (the new description assembled at the dead one's address).",
   note="Trusts the reference stepper (~200 lines, no dagrt/pymbolic code) and CPython/numpy arithmetic. Programs obey the well-definedness rules of DESIGN.md §3.4; ill-defined runs are discarded and counted. Values are compared exactly; a 1e-9 tolerance is used only after the reference observes Python's compensated sum() and naive addition disagree."),
 "C02": dict(engine="E-sched", level="exploration", design_ref="DESIGN.md §4 E-sched / C02",
   technique="deterministic simulation: simulator-owned scheduler executes sampled and race-directed linear extensions of the recorded dependency graph through the real interpreter callbacks on a recording store; history equivalence with written order",
   text="For seeded builder programs the real CodeBuilder's recorded graph is explored by a simulator-owned scheduler: random, latest-first, PCT and race-directed linear extensions (a directed schedule for every pair of unordered statements whose recorded dynamic accesses conflict or that are externally visible), from 1..3 initial stores. Each schedule is executed through the real evaluate_condition/exec_* and must give the events, terminator and final variable values of written order; structural checks cover edge direction, guard structure (else_ negation), single flag assignment and fresh-name uniqueness.",
   note="A race is reported only when a concrete schedule diverges (no false alarms from over-strict reading of 'ordered'); candidates that never diverge on the tried stores are only counted. User functions are pure; call order is not compared."),
})

CLAIMED.update({
 "C11": dict(engine="E-step", level="fault_enumeration", design_ref="DESIGN.md §4 E-step / C11",
   technique="deterministic simulation with fault injection: the k-th user-function call of a step raises; quick tier draws k, thorough tier enumerates every call index of the step; invariants after the fault and resumption equivalence against a fresh stepper",
   text="For seeded programs with user-function calls (every call site individually named) and seeded pre-histories, the k-th call of a step raises a drawn exception (21 classes), separately in NumpyInterpreter and in the generated class. Checked: the very exception object reaches the caller (X1); no per-step name survives (X2); every persistent variable holds its pre-step value or a value the written program's fault-free step assigns in a statement that does not depend on the failing statement (X3); variables all of whose writes depend on the failing call are unchanged (X4); the faulted stepper and a fresh stepper installed with the same state and phase behave identically over 1..3 further operations, including a second fault (X5). Thorough tier enumerates all call indices of the faulted step (<=24). Fault classes: 21 exception classes including KeyboardInterrupt and a BaseException subclass; the faulted operation is run_single_step, run(max_steps=1) or run(max_steps=2..3) (so the fault may follow completed steps of the same call); in 30% of runs the resumed stepper and its fresh twin are alive together and advanced alternately, one event each. Later additions: hand-written Nop barriers between a user call and a later persistent write, the exception kept in a 'last error' slot and released inside a later step, warnings-as-errors around the faulted operation.",
   note="Interpreter schedules are a fixed function of (run seed, site, iteration) so the dry-run twin, the faulted stepper and the fresh stepper see the same schedule. X3/X4 are skipped (counted) when the fault-free step is ill-defined. Which phase is current after the fault is deliberately not a C11 matter (C01 checks the step protocol)."),
})

CLAIMED.update({
 "C05": dict(engine="E-sched", level="exploration", design_ref="DESIGN.md §4 E-sched / C05",
   technique="deterministic simulation: simulator-owned container orders (statement storage, dependency-set iteration, phase dict) around the real lowering + generic walker with a recording back end; leaf-trace invariants and equality across orders",
   text="Seeded phases (hand-written graphs over all statement kinds with literal/flag/negated/conjunctive guards and 0..3 loops, plus builder-produced phases) are lowered by the real create_ast_from_phase under 2..4 tape-chosen storage orders and consumed through the real StructuredCodeGenerator walker by a recording back end; the emitted program is executed under 1..4 guard/bound valuations. Checked: exactly the non-Nop statements whose guard holds run, once per declared iteration vector (L1/L2), every transitive dependency precedes its dependents (L3), tree and trace are identical across storage orders (L4), lowering never raises on a verified phase (L5). In 30% of lowerings the same phase object is lowered a second time and must give the same program (the description is lowered once per back end).",
   note="Guard flags of hand-written phases are not assigned inside the phase (static valuation); builder-made loop bounds that cannot be evaluated statically get a fixed value per distinct expression on both sides of the comparison."),
 "C16": dict(engine="E-sched", level="exploration", design_ref="DESIGN.md §4 E-sched / C16",
   technique="deterministic simulation: the two fused methods are two parties on one store; the simulator owns their interleaving (linear extensions of the fused graph), the renaming predicate and the initial store; structural invariants at fuse time and per-origin equivalence with solo runs",
   text="Pairs of seeded builder programs with overlapping temporaries, statement ids, loop counters and condition flags, shared read-only state and disjoint persistent writes are fused by the real fuse_two_dags (default predicate, a drawn subset predicate, or rename-nothing); agreement checks (initial phase, default transitions, one-sided phases) and structure (unique ids, dependency edges mapped one-to-one, exactly the requested names renamed, persistent names untouched by default, verify_code accepts) are checked, then 3..24 interleavings x 1..2 stores are executed through the real interpreter callbacks and each method's persistent results and events must equal its solo run. Histories: hand-written id families and permuted storage for either method, an earlier fusion of the same two description objects under another predicate, a structural snapshot of both inputs (fusion must leave them as they were), and a fusion of the fused pair with a third method on either side (structural invariants). Later additions: implicit solves (executed by a simulated solver), attribute lookups with temporaries named like the attributes, methods used before fusion, one-sided phases whose record name differs from their key, statement classes compiled without asserts (python -O), and the order in which fusion walks the clashing names (owned by the simulator); persistence of a name is classified by the engine itself.",
   note="Execution equivalence is checked for the default predicate only (a custom predicate may legitimately share temporaries). Origin of fused statements is taken from list position (first method's statements come first)."),
})

CLAIMED.update({
 "C13": dict(engine="E-name", level="exploration", design_ref="DESIGN.md §4 E-name / C13",
   technique="deterministic simulation of lookup histories: seeded operation sequences against the real name managers, model of an injective, stable, legal mapping checked after every operation, compiler probes",
   text="Seeded adversarial name pools (punctuation/case twins, names equal to generated identifiers, tagged names, empty-after-sanitising names, 60..200 character names and long twins) and seeded histories of 5..60 operations (lookups through every entry point, repeated lookups, clear_locals, unique-name requests, refcount names, is_known queries) against the real PythonNameManager and FortranNameManager; after every operation a model checks legality (N1), pairwise distinctness of live identifiers, case-folded for Fortran (N2), distinctness from reserved identifiers (N3), stability (N4) and storage class by an independent persistent-name classification (N5). Every 8th quick run and every thorough run hands all live identifiers to compile() / gfortran -fsyntax-only. Those runs also push pool names (as loop variable and as a temporary of the loop body) through the real Python generator end to end; the generated class must yield the closed-form result. Later additions: a two-phase Python probe with names that compete for one identifier, a Fortran probe that generates, compiles and runs a module (names spelled like handed-out identifiers, names carrying the printers' private marker, a generator with extra_arguments).",
   note="The only simulator-owned dimension is the operation history (no fault beyond reordering/repetition). FortranNameManager.name_function is not used by the generator, so it is exercised for distinctness/legality but not against the reserved list. User names never start with dagrt_ (documented as reserved)."),
})

CLAIMED.update({
 "C03": dict(engine="E-fort", level="exploration", design_ref="DESIGN.md §4 E-fort / C03",
   technique="deterministic simulation: seeded run-call histories against the real compiled Fortran module under a generated driver, state after every call compared with the real interpreter (refinement)",
   text="Seeded Fortran-subset builder programs (user-type vectors with registered right-hand sides and CallCode templates, real scalars, arrays, loops, guarded blocks, conditional expressions, built-ins, 1..3 phases with guarded fail/switch/restart/raise) go through the whole real Fortran generator and gfortran; a generated driver initialises the seeded state, performs 1..8 run calls and prints next phase, <t>, <dt>, every persistent variable and the returned state/time/time-id after each call; each block is compared with the real interpreter after the corresponding step (failed and switched steps included; a Raise must stop the program at the same call). A compiler diagnostic or a generator exception on a program whose kinds can be inferred is a violation. The workload includes twin phases (same statements and local names in two phases), right-hand-side calls nested in expressions, a two-result user function, keyword arguments in either order, long names, chains of whole-array assignments, integer-kinded terms meeting real terms, and (20% of runs) an earlier generator object that was given the very same description objects. Later additions: a NaN persistent scalar and comparisons with it, compound call arguments, a name that is scalar in one phase and array in another, a (scalar, user type) result function, 17-digit constants against run-time values, order-sensitive two-loop statements, the instrumented generator variant; compiled programs run with address-space randomisation off.",
   note="gfortran 12 at -O0; floats compared with relative tolerance 1e-12; guards only compare exactly computed scalars so they cannot flip between back ends; programs whose kinds cannot be inferred are outside the subset (discarded and counted, ~8%)."),
 "C12": dict(engine="E-fort", level="exploration", design_ref="DESIGN.md §4 E-fort / C12",
   technique="deterministic simulation with memory-fault detection: seeded sequences of completed/failed/switched run calls followed by shutdown against the real module built with AddressSanitizer/LeakSanitizer/UBSan",
   text="The C03 pipeline with a workload biased to user-type temporaries that are live across guarded early exits, moved to/from persistent variables, overwritten, yielded then overwritten or never used; the module and driver are built with -fsanitize=address,undefined, run for 1..8 calls and shut down. Verdict classes: leak, double-free, use-after-free, invalid-pointer, null-deref, out-of-bounds, shutdown-reported-leak, crash, stderr; each report is mapped back through the '! {{{ statement' comments to the IR statement.",
   note="LSan reports storage unreachable at exit; storage still reachable from the driver's state after shutdown is caught only by shutdown's own 'leaked reference' report. Programs in which a Raise stops the program are excluded (the property is about runs followed by shutdown)."),
})

CLAIMED.update({
 "C14": dict(engine="E-det", level="exploration", design_ref="DESIGN.md §4 E-det / C14",
   technique="deterministic simulation: kind updates delivered to the real SymbolKindTable in seeded orders with duplicates (reordering/duplication faults), unify() in both argument orders and groupings, and the real SymbolKindFinder on permuted presentations in worker processes started under different PYTHONHASHSEED; convergence / equality oracles",
   text="Update level (every run, in process): a drawn multiset of set(phase, name, kind) messages over the eight-kind universe is delivered to a real SymbolKindTable in 2..6 drawn orders with duplicates; where no explored order hits a failing unification the final tables must be identical, and a failure in some orders but not others is itself a violation. unify() is called on drawn pairs (both orders, idempotence, None neutral) and triples (all six orders x both groupings). Program level (every second run, worker subprocesses): a Fortran-subset or kind-adversarial program is presented to the real SymbolKindFinder as written and in 2..4 drawn permutations of statements and phases under hash seed 0 and one drawn seed; outcome class and table contents must be identical. Presentations also vary the entry point (SymbolKindFinder directly, one-shot phase iterables, the public infer_kinds on a DAGCode), statement ids that repeat across phases, and a phase without statements at a drawn position. Later additions: long chains of provisionally known sums, calls whose result kind follows the argument's, dot_product targets, a finder object that was used before, idempotence for equal kinds that are distinct objects.",
   note="Conflicting message sets (every explored order hits a failing unification) are an ill-kinded program: unification failures are printed and ignored by design, so only 'consistent failure' is required there. The kind universe is finite (64 ordered pairs); the evidence file reports how many distinct pairs/triples this run actually met."),
 "C15": dict(engine="E-det", level="exploration", design_ref="DESIGN.md §4 E-det / C15",
   technique="deterministic simulation of process configuration and history: worker subprocesses started with drawn PYTHONHASHSEED, drawn container orders and a drawn history of earlier generator invocations; byte-equality of generated text and interpreter event log against a canonical worker",
   text="For a seeded builder program (Python generator, interpreter) and a seeded Fortran-subset program (Fortran generator) a canonical worker (PYTHONHASHSEED=0, builder order, no history) and 2..3 workers with drawn hash seeds, drawn statement-list / dependency-set / phase-dict orders and a drawn history of 0..3 earlier invocations in the same process (other programs through fresh generators, a Fortran generator that raises half-way, type constructions advancing the global index-variable counter, interpreter runs) produce Python text, Fortran text and the interpreter's 3-step event log; each must equal the canonical answer byte for byte. Jobs carry only tape slices and integers, so replays re-create every worker exactly. History kinds also include earlier generators / an interpreter that were given the very same description objects (same-objects:py, py_plain, interp, interp_shared, fortran), and the canonical worker itself regenerates the same method after another one. Later additions: persistent names that differ in case only, user types that name their own index variables (made once per worker), instrumentation and state-update hooks as generator configuration.",
   note="Python text: dag.phases insertion order is kept fixed (the generator emits phases in that order and the property does not list it). User types use explicit index_vars. Interpreter logs are compared only when the reference stepper finds the first three steps well defined."),
})

NOT_APPLICABLE = {
 "C06": "pure tree->tree function (simplify_ast) quantified over trees x truth assignments: no schedule, history, fault or configuration for a simulator to own; reached only indirectly through C01/C05",
 "C07": "rewriting passes are pure structured-program->structured-program functions run top to bottom; nothing to schedule or inject; reached only indirectly through C03",
 "C08": "per-statement, per-state inclusion of dynamic accesses in declared sets: a pure function of (statement, state); its schedule-relevant consequence is decided by C02's race check",
 "C09": "static kind table vs run-time value types for one program and input: pure comparison, no interleaving/fault dimension",
 "C10": "verify_code is a predicate on a finite graph: pure function of its input",
 "C17": "expression matching: pure function of (template, expression, free variables)",
 "C18": "constant hoisting: pure function of (expression, free variables)",
 "C19": "print/parse round trip: pure function of an expression",
 "C20": "line wrapping: pure function of (line, indentation, width); 'configurations' are plain arguments",
}

def main():
    checks = []
    for pid in sorted(CLAIMED):
        c = CLAIMED[pid]
        checks.append({
            "property_id": pid,
            "quick_cmd": "./check %s --tier quick" % pid,
            "thorough_cmd": "./check %s --tier thorough" % pid,
            "evidence_file": "evidence/%s.json" % pid,
            "replay_cmd_template": "./check %s --replay {path}" % pid,
            "engine": c["engine"],
            "level_claimed": {"category": c["level"], "text": c["text"], "design_ref": c["design_ref"]},
            "level_note": c["note"],
            "technique": c["technique"],
        })
    engines = {}
    for pid, c in CLAIMED.items():
        engines.setdefault(c["engine"], []).append(pid)
    paths = {"E-sched": "simdag/engines/sched*.py", "E-step": "simdag/engines/stepper.py",
             "E-name": "simdag/engines/names.py", "E-det": "simdag/engines/determinism.py",
             "E-fort": "simdag/engines/fortran.py"}
    m = {
        "version": 1,
        "setup_cmd": "./setup.sh",
        "hooks": {
            "guard": "DAGRT_VERIF",
            "enable": "no hook exists in /repo: every seam is an existing parameter or attribute (see DESIGN.md §1.2); ./check exports DAGRT_VERIF=1 for forward compatibility and imports dagrt from $VERIF_REPO (default /repo) working tree",
            "baseline_off_cmd": "cd /repo && /venv/bin/python -m pytest -ra -q -p no:cacheprovider --timeout=900 --continue-on-collection-errors",
            "source_commits": [],
            "add_only": True,
        },
        "engines": [{"name": k, "path": paths.get(k, ""), "serves_properties": sorted(v),
                     "kind_free_text": "deterministic simulation with fault injection (own seeded choice tape, fork pool)"}
                    for k, v in sorted(engines.items())],
        "checks": checks,
        "not_applicable": [{"property_id": k, "reason": v} for k, v in sorted(NOT_APPLICABLE.items())],
        "notes": "Exit codes: 0 held, 1 VIOLATION (with replay), 2 harness error. Fixes of genuine defects are 'fix:' commits in /repo listed in known_findings.json as fixed.",
    }
    with open(os.path.join(HOME, "MANIFEST.json"), "w") as f:
        json.dump(m, f, indent=1)
        f.write("\n")
    try:
        import jsonschema
        jsonschema.validate(m, json.load(open("/root/.vp/MANIFEST.schema.json")))
        print("MANIFEST.json valid,", len(checks), "checks")
    except ImportError:
        print("MANIFEST.json written (jsonschema not importable here)")

if __name__ == "__main__":
    main()
