#!/usr/bin/env python3
"""Triage seeded changes produced by independent sub-agents.

usage: triage_seeded.py <worktree> <property> [check-props,comma] [--runs N]

For every <worktree>/seeded/<id>/ with patch.diff + demo.py:
  1. in the (clean) worktree: demo passes; apply patch; pinned tests pass; demo fails; revert
  2. with the patch applied: run ./check <prop> (VERIF_REPO=<worktree>) for every requested property
  3. copy patch.diff, demo.py, notes.md into /verif/seeded/<id>/ and write meta.json
Nothing is ever applied to /repo.
"""
import json
import os
import shutil
import subprocess
import sys
import time

HOME = os.path.dirname(os.path.dirname(os.path.abspath(__file__)))


def sh(cmd, cwd=None, env=None, timeout=3600):
    p = subprocess.run(cmd, cwd=cwd, env=env, capture_output=True, text=True, timeout=timeout, shell=isinstance(cmd, str))
    return p.returncode, p.stdout + p.stderr


def main():
    wt, prop = sys.argv[1], sys.argv[2]
    check_props = [prop]
    runs = None
    for a in sys.argv[3:]:
        if a.startswith("--runs"):
            runs = a.split("=")[1]
        else:
            check_props = a.split(",")
    env = dict(os.environ, PYTHONPATH=wt, PYTHONDONTWRITEBYTECODE="1")
    seeded = os.path.join(wt, "seeded")
    rows = []
    for name in sorted(os.listdir(seeded)):
        d = os.path.join(seeded, name)
        patch = os.path.join(d, "patch.diff")
        demo = os.path.join(d, "demo.py")
        if not (os.path.exists(patch) and os.path.exists(demo)):
            continue
        meta = {"id": name, "property": prop, "source": "independent sub-agent working only from the property text",
                "ran": []}
        sh(["git", "-C", wt, "checkout", "--", "dagrt"])
        rc0, out0 = sh(["/venv/bin/python", demo], cwd=wt, env=env, timeout=900)
        meta["demo_on_clean_tree"] = {"exit": rc0, "tail": out0.strip().splitlines()[-2:]}
        rca, outa = sh(["git", "-C", wt, "apply", patch])
        if rca != 0:
            # /repo moved on (fix: commits) since the sub-agent's checkout: rebase the patch
            rca, outa = sh(["git", "-C", wt, "apply", "--3way", patch])
            if rca != 0:
                sh(["git", "-C", wt, "reset", "--hard"])
                meta["error"] = "patch does not apply: " + outa[-300:]
                print("%-8s patch does not apply to the current tree" % name)
                rows.append(meta)
                continue
            sh(["git", "-C", wt, "reset"])
            _rc, diff = sh(["git", "-C", wt, "diff", "--", "dagrt"])
            with open(patch, "w") as f:
                f.write(diff)
            meta["patch_rebased_onto_current_repo_head"] = True
        try:
            rct, outt = sh(["/venv/bin/python", "-m", "pytest", "-q", "-p", "no:cacheprovider", "--timeout=900", "test"],
                           cwd=wt, env=env, timeout=1800)
            meta["pinned_tests_with_change"] = {"exit": rct, "tail": outt.strip().splitlines()[-1:]}
            rc1, out1 = sh(["/venv/bin/python", demo], cwd=wt, env=env, timeout=900)
            meta["demo_with_change"] = {"exit": rc1, "tail": out1.strip().splitlines()[-2:]}
            meta["confirmed"] = (rc0 == 0 and rct == 0 and (rc1 != 0 or "FAIL" in out1))
            meta["checks"] = {}
            for cp in check_props:
                cenv = dict(os.environ, VERIF_REPO=wt, VERIF_EVIDENCE_DIR="/var/tmp/seeded-evidence",
                            VERIF_MAX_REPORTS="2")
                cenv.pop("PYTHONPATH", None)
                cmd = [os.path.join(HOME, "check"), cp, "--tier", "quick"]
                if runs:
                    cmd += ["--runs", runs]
                t0 = time.time()
                rcc, outc = sh(cmd, env=cenv, timeout=7200)
                lines = [ln for ln in outc.splitlines() if ln.startswith(("VIOLATION", "violation class", "HARNESS"))]
                meta["checks"][cp] = {"cmd": " ".join(cmd[len(HOME) + 1:] if False else ["./check"] + cmd[1:]),
                                      "exit": rcc, "wall_s": round(time.time() - t0, 1),
                                      "caught": rcc == 1 and any(ln.startswith("VIOLATION property=%s " % cp) for ln in lines),
                                      "report": [ln[:400] for ln in lines[:4]]}
                meta["ran"].append("VERIF_REPO=<worktree with patch applied> ./check %s --tier quick" % cp)
        finally:
            sh(["git", "-C", wt, "checkout", "--", "dagrt"])
        notes = os.path.join(d, "notes.md")
        out_dir = os.path.join(HOME, "seeded", name)
        os.makedirs(out_dir, exist_ok=True)
        shutil.copy(patch, out_dir)
        shutil.copy(demo, out_dir)
        if os.path.exists(notes):
            shutil.copy(notes, out_dir)
            with open(notes) as f:
                meta["needs_to_manifest"] = "see notes.md"
        meta["ran"] = ["git apply patch.diff in a scratch worktree (never in /repo)",
                       "pinned pytest suite with the change", "demo.py with and without the change"] + meta["ran"]
        with open(os.path.join(out_dir, "meta.json"), "w") as f:
            json.dump(meta, f, indent=1)
            f.write("\n")
        rows.append(meta)
        print("%-8s confirmed=%s  %s" % (name, meta.get("confirmed"),
              "  ".join("%s:%s" % (k, "CAUGHT" if v["caught"] else "MISSED(exit %d)" % v["exit"])
                        for k, v in meta.get("checks", {}).items())))
        for k, v in meta.get("checks", {}).items():
            for ln in v["report"][:2]:
                print("      " + ln[:220])
    shutil.rmtree("/var/tmp/seeded-evidence", ignore_errors=True)


if __name__ == "__main__":
    main()
