#!/usr/bin/env python3
"""Writes seeded/README.md from the meta.json / notes.md of every seeded change and the
hand-maintained tables in seeded/strengthenings.md (kept as text, appended verbatim)."""
import json
import os

HOME = os.path.dirname(os.path.dirname(os.path.abspath(__file__)))
S = os.path.join(HOME, "seeded")


def title(d, name):
    p = os.path.join(d, "notes.md")
    if os.path.exists(p):
        with open(p) as f:
            for ln in f:
                ln = ln.strip().lstrip("#").strip()
                if ln:
                    return ln.replace("|", "/")[:170]
    return name


def main():
    rows = []
    n = caught_all = 0
    for name in sorted(os.listdir(S), key=lambda x: (x.split("-")[0], int(x.split("-")[1]) if "-" in x and x.split("-")[1].isdigit() else 0)):
        d = os.path.join(S, name)
        mp = os.path.join(d, "meta.json")
        if not os.path.exists(mp):
            continue
        with open(mp) as f:
            meta = json.load(f)
        n += 1
        prop = meta["property"]
        checks = meta.get("checks", {})
        verdict = ", ".join("%s: %s" % (k, "caught" if v.get("caught") else "missed") for k, v in sorted(
            checks.items(), key=lambda kv: (kv[0] != prop, kv[0])))
        own = checks.get(prop, {})
        if own.get("caught"):
            caught_all += 1
        rep = (own.get("report") or [""])[0][:140].replace("|", "/").replace("`", "'")
        rnd = 1 + (int(name.split("-")[1]) - 1) // 3
        rows.append("| %s | %s | %d | %s | %s | %s | `%s` |" % (name, prop, rnd, title(d, name), meta.get("confirmed"),
                                                             verdict, rep))
    with open(os.path.join(S, "strengthenings.md")) as f:
        tail = f.read()
    head = """# Seeded changes (independent sub-agents)

Five rounds of 33 (3 per claimed property). Each sub-agent was given only the text of one property (from round 2 on: plus the
one-line titles of the earlier changes for that property, to avoid repeats) and its own scratch worktree of /repo under /tmp; nothing
from /verif. Every change below was confirmed by `tools/triage_seeded.py` in a scratch worktree (never in /repo): the pinned 116 tests
pass with the change, `demo.py` fails with it and passes without it; then the property's quick check was run with `VERIF_REPO` pointing
at the worktree with the patch applied. After the checks or workloads change, `tools/recheck_seeded.py` re-runs the property's quick
check against every kept change (the seeded changes double as a second, independently written mutant corpus); `meta.json` in each
directory records what was run last and against which /repo head. Patches were rebased onto the current /repo head where later `fix:`
commits touched the same lines. **%d of %d changes are caught by the quick check of the property they break.**

| id | property | round | change | confirmed | quick check verdict | first report |
|---|---|---|---|---|---|---|
""" % (caught_all, n)
    with open(os.path.join(S, "README.md"), "w") as f:
        f.write(head + "\n".join(rows) + "\n\n" + tail)
    print("%d changes, %d caught" % (n, caught_all))


if __name__ == "__main__":
    main()
