#!/usr/bin/env python3
"""Re-run the property's quick check against every seeded change kept under /verif/seeded
(after the checks or generators changed).  usage: recheck_seeded.py <scratch-worktree> [ids...]

The scratch worktree (outside /repo and /verif) is reset to /repo's HEAD; nothing is applied to /repo.
Updates meta.json["checks"] and prints one line per seed.
"""
import json
import os
import subprocess
import sys
import time

HOME = os.path.dirname(os.path.dirname(os.path.abspath(__file__)))


def sh(cmd, **kw):
    p = subprocess.run(cmd, capture_output=True, text=True, **kw)
    return p.returncode, p.stdout + p.stderr


def main():
    wt = sys.argv[1]
    only = set(sys.argv[2:])
    head = sh(["git", "-C", "/repo", "rev-parse", "HEAD"])[1].strip()
    sh(["git", "-C", wt, "checkout", "-q", "--detach", head])
    sh(["git", "-C", wt, "reset", "-q", "--hard", head])
    missed = []
    for name in sorted(os.listdir(os.path.join(HOME, "seeded"))):
        d = os.path.join(HOME, "seeded", name)
        patch = os.path.join(d, "patch.diff")
        if not os.path.exists(patch) or (only and name not in only):
            continue
        with open(os.path.join(d, "meta.json")) as f:
            meta = json.load(f)
        prop = meta["property"]
        rc, out = sh(["git", "-C", wt, "apply", patch])
        if rc != 0:
            rc, out = sh(["git", "-C", wt, "apply", "--3way", patch])
            sh(["git", "-C", wt, "reset", "-q"])
            if rc != 0:
                sh(["git", "-C", wt, "reset", "-q", "--hard", head])
                print("%-8s patch does not apply: %s" % (name, out[-200:]))
                missed.append(name)
                continue
        env = dict(os.environ, VERIF_REPO=wt, VERIF_EVIDENCE_DIR="/var/tmp/seeded-evidence", VERIF_MAX_REPORTS="2")
        env.pop("PYTHONPATH", None)
        t0 = time.time()
        rcc, outc = sh([os.path.join(HOME, "check"), prop, "--tier", "quick", "--no-minimise"], env=env, timeout=7200)
        sh(["git", "-C", wt, "reset", "-q", "--hard", head])
        lines = [ln for ln in outc.splitlines() if ln.startswith(("VIOLATION", "violation class", "HARNESS"))]
        caught = rcc == 1 and any(ln.startswith("VIOLATION property=%s " % prop) for ln in lines)
        meta.setdefault("checks", {})[prop] = {
            "cmd": "./check %s --tier quick" % prop, "exit": rcc, "wall_s": round(time.time() - t0, 1),
            "caught": caught, "report": [ln[:400] for ln in lines[:4]],
            "rechecked_with_repo_head": head[:7]}
        with open(os.path.join(d, "meta.json"), "w") as f:
            json.dump(meta, f, indent=1)
            f.write("\n")
        print("%-8s %s  %s" % (name, "CAUGHT" if caught else "MISSED(exit %d)" % rcc,
                               (lines[0][:160] if lines else "")), flush=True)
        if not caught:
            missed.append(name)
    print("missed: %s" % (", ".join(missed) or "none"))


if __name__ == "__main__":
    main()
