#!/bin/bash
# Offline setup: nothing to build; verify the interpreter and optionally install jsonschema
# (evidence validation falls back to a built-in validator when it is absent).
set -u
here="$(cd "$(dirname "${BASH_SOURCE[0]}")" && pwd)"
cd "$here"
/venv/bin/python -c "import numpy, pymbolic, pytools, mako" || { echo "repo dependencies missing in /venv"; exit 1; }
if ! PYTHONPATH="$here/.deps" /venv/bin/python -c "import jsonschema" 2>/dev/null; then
  PIP_NO_INDEX=1 /venv/bin/python -m pip install --quiet --no-index --find-links /opt/veriftools/wheels \
      --target "$here/.deps" jsonschema >/dev/null 2>&1 || echo "note: jsonschema not installed; built-in evidence validator is used"
fi
mkdir -p "$here/out/replays" "$here/evidence"
command -v gfortran >/dev/null || echo "note: gfortran missing (C03/C12 would exit 2)"
echo "setup ok"
