"""Generator expression trees with three renderings made from the same tree:
dagrt input as a string (for dagrt.expression.parse), dagrt input as a pymbolic
object, and a direct Python evaluation used only by the reference model.
The reference evaluation shares no code with dagrt's evaluator, printer, parser.
"""
import operator

import numpy as np

from simdag.core.outcome import Discard

CMP = {"<": operator.lt, "<=": operator.le, ">": operator.gt, ">=": operator.ge,
       "==": operator.eq, "!=": operator.ne}

MAG_CAP = 1e100


class IllDefined(Discard):
    def __init__(self, why):
        Discard.__init__(self, "ill-defined:" + why)


import re as _re
_PARSEABLE = _re.compile(r"^(<\w+>)?[A-Za-z_]\w*$")


def parseable(name):
    """can this name be written in a string handed to dagrt's parser?"""
    return bool(_PARSEABLE.match(name))


def _q(name):
    """Name as it must be written in a string handed to dagrt's parser."""
    return name


class X:
    __slots__ = ()

    def vars(self, acc):
        raise NotImplementedError


class Const(X):
    __slots__ = ("v", "np_kind")

    def __init__(self, v, np_kind=None):
        self.v = v
        self.np_kind = np_kind    # None | "float64" | "int64": object-mode numpy scalar

    def s(self, nm):
        v = self.v
        if isinstance(v, bool):
            return "True" if v else "False"
        if v < 0:
            return "(%r)" % (v,)
        return repr(v)

    def pym(self, nm):
        if self.np_kind == "float64":
            return np.float64(self.v)
        if self.np_kind == "int64":
            return np.int64(self.v)
        return self.v

    def ev(self, R, flat):
        return self.v

    def vars(self, acc):
        pass

    def stringable(self):
        v = self.v
        return isinstance(v, (bool, int)) or (v == v and abs(v) != float("inf"))


class Var(X):
    __slots__ = ("name",)

    def __init__(self, name):
        self.name = name

    def s(self, nm):
        return _q(nm(self.name))

    def pym(self, nm):
        from pymbolic.primitives import Variable
        return Variable(nm(self.name))

    def ev(self, R, flat):
        return R.read(self.name)

    def vars(self, acc):
        acc.append(self.name)

    def stringable(self):
        return parseable(self.name) or self.name.startswith("$")


def _check(v):
    if isinstance(v, np.ndarray):
        if v.dtype != object and v.size and not np.all(np.abs(v) < MAG_CAP):
            raise IllDefined("magnitude")
    elif isinstance(v, (float, np.floating)):
        if not abs(v) < MAG_CAP:
            raise IllDefined("magnitude")
    elif isinstance(v, (int, np.integer)) and not isinstance(v, (bool, np.bool_)):
        # numpy integers (object-mode constants, len()) wrap around silently at 2**63 while Python
        # integers do not: integer overflow is outside the well-defined domain
        if abs(int(v)) > 2 ** 31:
            raise IllDefined("magnitude")
    return v


def _bitsame(a, b):
    if isinstance(a, np.ndarray) or isinstance(b, np.ndarray):
        return bool(np.array_equal(a, b, equal_nan=True))
    return a == b or (a != a and b != b)


def _sum_terms(node, out):
    if isinstance(node, Bin) and node.op == "+":
        _sum_terms(node.a, out)
        _sum_terms(node.b, out)
    elif isinstance(node, Bin) and node.op == "-":
        _sum_terms(node.a, out)
        out.append(("neg", node.b))
    else:
        out.append(("pos", node))


def _prod_terms(node, out):
    if isinstance(node, Bin) and node.op == "*":
        _prod_terms(node.a, out)
        _prod_terms(node.b, out)
    else:
        out.append(node)


class Bin(X):
    __slots__ = ("op", "a", "b")

    def __init__(self, op, a, b):
        self.op, self.a, self.b = op, a, b

    def s(self, nm):
        return "(%s %s %s)" % (self.a.s(nm), self.op, self.b.s(nm))

    def pym(self, nm):
        import pymbolic.primitives as p
        a, b = self.a.pym(nm), self.b.pym(nm)
        if self.op == "+":
            return p.Sum((a, b))
        if self.op == "-":
            return p.Sum((a, p.Product((-1, b))))
        if self.op == "*":
            return p.Product((a, b))
        return p.Quotient(a, b)

    def ev(self, R, flat):
        try:
            if self.op in "+-":
                if flat:
                    terms = []
                    _sum_terms(self, terms)
                else:
                    terms = [("pos", self.a), ("neg" if self.op == "-" else "pos", self.b)]
                vals = []
                for sign, t in terms:
                    v = t.ev(R, flat)
                    vals.append((-1) * v if sign == "neg" else v)
                # dagrt's evaluator (pymbolic) adds with the builtin sum(), which since
                # Python 3.12 is *compensated* for floats; generated code adds naively.
                r = sum(vals)
                naive = vals[0]
                for v in vals[1:]:
                    naive = naive + v
                if not _bitsame(r, naive):
                    R.note_inexact(r, naive)
                R.note_scale(r)
                return _check(r)
            if self.op == "*":
                if flat:
                    terms = []
                    _prod_terms(self, terms)
                    acc = 1
                    for t in terms:
                        acc = acc * t.ev(R, flat)
                    return _check(acc)
                return _check(self.a.ev(R, flat) * self.b.ev(R, flat))
            a = self.a.ev(R, flat)
            b = self.b.ev(R, flat)
            if not isinstance(b, np.ndarray) and b == 0:
                raise IllDefined("division-by-zero")
            return _check(a / b)
        except (ZeroDivisionError, OverflowError):
            raise IllDefined("arith")

    def vars(self, acc):
        self.a.vars(acc)
        self.b.vars(acc)

    def stringable(self):
        return self.a.stringable() and self.b.stringable()


class Pow(X):
    __slots__ = ("a", "k")

    def __init__(self, a, k):
        self.a, self.k = a, k

    def s(self, nm):
        return "(%s**%d)" % (self.a.s(nm), self.k)

    def pym(self, nm):
        import pymbolic.primitives as p
        return p.Power(self.a.pym(nm), self.k)

    def ev(self, R, flat):
        try:
            return _check(self.a.ev(R, flat) ** self.k)
        except (ZeroDivisionError, OverflowError):
            raise IllDefined("arith")

    def vars(self, acc):
        self.a.vars(acc)

    def stringable(self):
        return self.a.stringable()


class Cmp(X):
    __slots__ = ("op", "a", "b")

    def __init__(self, op, a, b):
        self.op, self.a, self.b = op, a, b

    def s(self, nm):
        return "(%s %s %s)" % (self.a.s(nm), self.op, self.b.s(nm))

    def pym(self, nm):
        import pymbolic.primitives as p
        return p.Comparison(self.a.pym(nm), self.op, self.b.pym(nm))

    def ev(self, R, flat):
        a, b = self.a.ev(R, flat), self.b.ev(R, flat)
        if R.tolerant and not isinstance(a, np.ndarray) and not isinstance(b, np.ndarray):
            try:
                if abs(a - b) <= 1e-6 * max(abs(a), abs(b), R.scale, 1e-300):
                    raise IllDefined("inexact-guard")
            except TypeError:
                pass
        return CMP[self.op](a, b)

    def vars(self, acc):
        self.a.vars(acc)
        self.b.vars(acc)

    def stringable(self):
        return self.a.stringable() and self.b.stringable()


class Logic(X):
    __slots__ = ("op", "args")

    def __init__(self, op, args):
        self.op, self.args = op, args

    def s(self, nm):
        return "(" + (" %s " % self.op).join(a.s(nm) for a in self.args) + ")"

    def pym(self, nm):
        import pymbolic.primitives as p
        cls = p.LogicalAnd if self.op == "and" else p.LogicalOr
        return cls(tuple(a.pym(nm) for a in self.args))

    def ev(self, R, flat):
        if self.op == "and":
            for a in self.args:
                if not a.ev(R, flat):
                    return False
            return True
        for a in self.args:
            if a.ev(R, flat):
                return True
        return False

    def vars(self, acc):
        for a in self.args:
            a.vars(acc)

    def stringable(self):
        return all(a.stringable() for a in self.args)


class Not(X):
    __slots__ = ("a",)

    def __init__(self, a):
        self.a = a

    def s(self, nm):
        return "(not %s)" % self.a.s(nm)

    def pym(self, nm):
        import pymbolic.primitives as p
        return p.LogicalNot(self.a.pym(nm))

    def ev(self, R, flat):
        return not self.a.ev(R, flat)

    def vars(self, acc):
        self.a.vars(acc)

    def stringable(self):
        return self.a.stringable()


class IfX(X):
    __slots__ = ("c", "t", "e")

    def __init__(self, c, t, e):
        self.c, self.t, self.e = c, t, e

    def s(self, nm):
        return "(%s if %s else %s)" % (self.t.s(nm), self.c.s(nm), self.e.s(nm))

    def pym(self, nm):
        import pymbolic.primitives as p
        return p.If(self.c.pym(nm), self.t.pym(nm), self.e.pym(nm))

    def ev(self, R, flat):
        if self.c.ev(R, flat):
            return self.t.ev(R, flat)
        return self.e.ev(R, flat)

    def vars(self, acc):
        self.c.vars(acc)
        self.t.vars(acc)
        self.e.vars(acc)

    def stringable(self):
        return self.c.stringable() and self.t.stringable() and self.e.stringable()


class Sub(X):
    __slots__ = ("arr", "idx")

    def __init__(self, arr, idx):
        self.arr, self.idx = arr, idx

    def s(self, nm):
        return "%s[%s]" % (_q(nm(self.arr)), self.idx.s(nm))

    def pym(self, nm):
        import pymbolic.primitives as p
        return p.Subscript(p.Variable(nm(self.arr)), self.idx.pym(nm))

    def ev(self, R, flat):
        a = R.read(self.arr)
        i = self.idx.ev(R, flat)
        if isinstance(i, bool) or not isinstance(i, (int, np.integer)):
            raise IllDefined("non-integer-subscript")
        if not isinstance(a, np.ndarray) or not (0 <= i < len(a)):
            raise IllDefined("subscript-range")
        return a[i]

    def vars(self, acc):
        acc.append(self.arr)
        self.idx.vars(acc)

    def stringable(self):
        return self.idx.stringable() and parseable(self.arr)


class Lst(X):
    """a Python list / tuple of expressions handed to a call as one argument (objects only)."""
    __slots__ = ("items", "as_tuple")

    def __init__(self, items, as_tuple=False):
        self.items, self.as_tuple = list(items), as_tuple

    def s(self, nm):
        inner = ", ".join(i.s(nm) for i in self.items)
        return "(%s,)" % inner if self.as_tuple else "[%s]" % inner

    def pym(self, nm):
        out = [i.pym(nm) for i in self.items]
        return tuple(out) if self.as_tuple else out

    def ev(self, R, flat):
        out = [i.ev(R, flat) for i in self.items]
        return tuple(out) if self.as_tuple else out

    def vars(self, acc):
        for i in self.items:
            i.vars(acc)

    def stringable(self):
        return False


class Attr(X):
    """attribute lookup on a numeric variable: x.real / x.imag (the attribute name is no variable)."""
    __slots__ = ("name", "attr")

    def __init__(self, name, attr):
        self.name, self.attr = name, attr

    def s(self, nm):
        return "%s.%s" % (_q(nm(self.name)), self.attr)

    def pym(self, nm):
        import pymbolic.primitives as p
        return p.Lookup(p.Variable(nm(self.name)), self.attr)

    def ev(self, R, flat):
        v = R.read(self.name)
        if isinstance(v, (bool, np.bool_, np.ndarray)) or not isinstance(v, (int, float, np.integer, np.floating)):
            raise IllDefined("attribute-of-non-number")
        return v.real if self.attr == "real" else v.imag

    def vars(self, acc):
        acc.append(self.name)

    def stringable(self):
        return parseable(self.name)


class Call(X):
    __slots__ = ("fn", "args", "kwargs")

    def __init__(self, fn, args, kwargs=()):
        self.fn, self.args, self.kwargs = fn, list(args), list(kwargs)

    def s(self, nm):
        parts = [a.s(nm) for a in self.args] + ["%s=%s" % (k, v.s(nm)) for k, v in self.kwargs]
        fn = self.fn
        if fn.startswith("<builtin>"):
            fn = "`" + fn + "`"
        return "%s(%s)" % (fn, ", ".join(parts))

    def pym(self, nm):
        from pymbolic.primitives import Variable
        return Variable(self.fn)(*[a.pym(nm) for a in self.args],
                                 **{k: v.pym(nm) for k, v in self.kwargs})

    def ev(self, R, flat):
        args = [a.ev(R, flat) for a in self.args]
        kwargs = {k: v.ev(R, flat) for k, v in self.kwargs}
        return _check(R.call(self.fn, args, kwargs))

    def vars(self, acc):
        for a in self.args:
            a.vars(acc)
        for _k, v in self.kwargs:
            v.vars(acc)

    def stringable(self):
        return all(a.stringable() for a in self.args) and all(v.stringable() for _k, v in self.kwargs)


def expr_vars(e):
    acc = []
    e.vars(acc)
    return acc


def has_call(e, user_only=True):
    if isinstance(e, Call):
        if not user_only or not e.fn.startswith("<builtin>"):
            return True
        return any(has_call(a, user_only) for a in e.args) or any(
            has_call(v, user_only) for _k, v in e.kwargs)
    for attr in ("a", "b", "c", "t", "e", "idx"):
        sub = getattr(e, attr, None)
        if isinstance(sub, X) and has_call(sub, user_only):
            return True
    if isinstance(e, Logic):
        return any(has_call(a, user_only) for a in e.args)
    return False


def render(e, nm, mode):
    """mode 's' -> str for parse(); 'o' -> pymbolic object."""
    if mode == "s" and e.stringable():
        return e.s(nm)
    return e.pym(nm)


def text(e, nm=None):
    return e.s(nm or (lambda n: n))
