"""Hand-written dependency graphs (C04, C05): shapes, adversarial ids, kinds,
guards, loop nests.  Nothing here iterates a set."""

ID_POOL = sorted([
    "a", "b", "c", "d", "e", "f", "g", "h",
    "A", "B", "Z", "_x", "_", "x-1", "x.2", "0", "00", "1", "10", "2", "9",
    "main_0", "main_1", "main_10", "main_2", "main_9", "main_11",
    "stmt", "stmt_0", "stmt_1", "s", "ss", "sss", "nop", "return", "yield",
    "z", "zz", "z0", "z_0", "~", "{", "é", "ab", "ba", "aa", "bb",
    "p_1", "p_2", "p_3", "p_4", "p_5", "p_6", "p_7", "p_8", "p_9", "p_10",
    "q1", "q2", "q3", "q4", "q5", "q6", "q7", "q8", "q9", "q10", "q11", "q12",
])

KINDS = ["Assign", "Nop", "YieldState", "AssignFunctionCall", "FailStep",
         "SwitchPhase", "Raise"]

SHAPES = ["random", "chain", "diamond", "fan_in", "fan_out", "forest", "layered", "empty_edges"]


def gen_graph(tape, max_n):
    """Returns (ids, deps) where deps[i] is a sorted list of indices < i in a
    hidden topological order that differs from sorted-id order."""
    with tape.span("graph"):
        n = 1 + tape.draw(max_n, "n")
        shape = SHAPES[tape.weighted([4, 1, 2, 1, 1, 1, 2, 0.5], "shape")]
        # ids: tape-chosen distinct members of the pool, in tape-chosen order
        pool = list(ID_POOL)
        ids = []
        for _ in range(n):
            k = tape.draw(len(pool), "id")
            ids.append(pool.pop(k))
        deps = [[] for _ in range(n)]
        if shape == "chain":
            for i in range(1, n):
                deps[i] = [i - 1]
        elif shape == "diamond":
            # repeated diamonds: i depends on two earlier nodes sharing an ancestor
            for i in range(1, n):
                if i % 3 == 0 and i >= 3:
                    deps[i] = [i - 2, i - 1]
                elif i % 3 in (1, 2):
                    deps[i] = [i - (i % 3)]
        elif shape == "fan_in":
            if n > 1:
                deps[n - 1] = list(range(n - 1))
        elif shape == "fan_out":
            for i in range(1, n):
                deps[i] = [0]
        elif shape == "forest":
            for i in range(1, n):
                if tape.chance(0.5, "edge"):
                    deps[i] = [tape.draw(i, "parent")]
        elif shape == "layered":
            width = 1 + tape.draw(3, "width")
            for i in range(width, n):
                layer_start = (i // width - 1) * width
                deps[i] = sorted(set(layer_start + tape.draw(width, "l")
                                     for _ in range(1 + tape.draw(2, "k"))))
        elif shape == "empty_edges":
            pass
        else:
            dens = [0.15, 0.3, 0.5, 0.8][tape.draw(4, "density")]
            for i in range(1, n):
                deps[i] = [j for j in range(i) if tape.chance(dens, "edge")]
    return ids, deps, shape


def closure(deps):
    """anc[i] = set of all ancestors (transitive dependencies) of i."""
    n = len(deps)
    anc = [set() for _ in range(n)]
    for i in range(n):
        for j in deps[i]:
            anc[i].add(j)
            anc[i] |= anc[j]
    return anc


def sinks(deps):
    n = len(deps)
    used = set()
    for d in deps:
        used.update(d)
    return [i for i in range(n) if i not in used]
