"""Builder scripts restricted to what the Fortran target supports (DESIGN.md §3.3):
real scalars, arrays via <builtin>array initialised by a loop, user-type vectors,
counted loops, guarded statements, conditional expressions, built-ins with Fortran
templates, registered user functions (CallCode template + Python twin), several
phases with guarded fail_step / switch_phase / restart_step, yields of user types.

Every user-type variable has a typing anchor; guards only compare exactly computed
scalars (counters, <t>, <dt>, dyadic constants)."""
import numpy as np

from simdag.gen.expr import Bin, Call, Cmp, Const, IfX, Logic, Not, Pow, Sub, Var
from simdag.gen.script import PhaseS, Script

UT_TEMPS = ["k", "k2", "y2", "ytmp", "w", "K", "yy", "k_stage_value_for_the_second_half_step_of_y",
            # names spelled like the temporaries that the Fortran pipeline makes up itself
            "temp_old", "tmp0"]
SC_TEMPS = ["s", "r", "q", "c", "S", "tt", "e", "scratch_scalar_for_the_error_estimate_of_the_step"]
ARR_TEMPS = ["a", "b", "arr", "vec", "c2"]
DYADIC = [0.5, 2.0, 1.5, -0.5, 0.25, -1.0, 3.0, -2.0]
SMALL = [1.0, 2.0, 0.5, 3.0, -1.0, 0.0, 1.5]

# user functions: name -> (n user-type inputs, fortran template body, python twin)
FFUNCS = {
    "<func>f": (1, "${result}{m} = -2*${y}{m} + ${t}", lambda t, y: -2 * y + t),
    "<func>g": (1, "${result}{m} = 0.5d0*${y}{m} - 1", lambda t, y: 0.5 * y - 1),
    "<func>h": (2, "${result}{m} = ${y}{m} - ${z}{m} + 2*${t}", lambda t, y, z: y - z + 2 * t),
}
# right-hand side of the optional second user type "v" (its own component, allocation and release routines)
FV = ("<func>fv", "${result} = 0.5d0*${v} + ${t}", lambda t, v: 0.5 * v + t)


# a user function with two user-type results (both allocated, assigned and released by the generated code)
FTWO = ("<func>two", ["${r1}{m} = 2*${y}{m} + ${t}", "${r2}{m} = ${y}{m} - 1"], lambda t, y: (2 * y + t, y - 1))
# ... and one whose first result is a real scalar and whose second is a user type
FMIX = ("<func>mix", "${e} = ${t} + 0.5d0", "${r}{m} = ${y}{m} + 1", lambda t, y: (t + 0.5, y + 1))
# long per-step names (the Fortran identifier is the prefixed, length-limited form)
LONG_UT = "k_stage_value_for_the_second_half_step_of_y"
LONG_SC = "scratch_scalar_for_the_error_estimate_of_the_step"


class FScript(Script):
    pass


class FortranGen:
    def __init__(self, tape, max_ops=8, c12_bias=False, allow_raise=True):
        self.tape = tape
        self.max_ops = max_ops
        self.c12_bias = c12_bias
        self.allow_raise = allow_raise
        self.types = {}
        self.exact = set()
        self.used_funcs = set()
        self.recent_conds = []
        self.n_shrink = 0
        self.n_condpair = 0
        self.shape = []

    def pick(self, seq, label=""):
        return seq[self.tape.draw(len(seq), label)]

    def of(self, D, ty):
        return sorted(n for n in D if self.types.get(n) == ty)

    def mode(self):
        return "s" if self.tape.chance(0.5, "mode") else "o"

    # ---- expressions
    def g_exact(self, D, depth):
        """exactly computed real scalar (dyadic arithmetic)."""
        t = self.tape
        vs = [v for v in self.of(D, "real") if v in self.exact]
        k = t.weighted([3, 4 if vs else 0, 3 if depth > 0 else 0, 0.7 if depth > 0 else 0], "exact")
        if k == 0:
            return Const(self.pick(SMALL, "c"))
        if k == 1:
            return Var(self.pick(vs, "v"))
        if k == 2:
            op = self.pick(["+", "-", "*"], "op")
            a, b = self.g_exact(D, depth - 1), self.g_exact(D, depth - 1)
            if op == "*" and not isinstance(b, Const):
                b = Const(self.pick(DYADIC[:5], "mulc"))
            return Bin(op, a, b)
        return Bin("/", self.g_exact(D, depth - 1), Const(self.pick([2.0, 4.0], "den")))

    def g_real(self, D, depth, counters=()):
        """real scalar, possibly inexact."""
        t = self.tape
        vs = self.of(D, "real")
        uts = self.of(D, "ut")
        arrs = [n for n in D if isinstance(self.types.get(n), tuple)]
        w = [2, 4 if vs else 0, 3 if depth > 0 else 0, 1 if depth > 0 else 0,
             1 if depth > 0 else 0, 1 if arrs else 0, 1 if counters else 0, 1 if depth > 0 else 0,
             0.5 if depth > 0 else 0, 0.8 if uts and depth > 0 else 0]
        k = t.weighted(w, "real")
        if k == 9:
            # a call on a user-type value inside an expression (possibly inside a loop body)
            return Call("<builtin>norm_2", [Var(self.pick(uts, "nrm"))])
        if k == 0:
            c = self.pick(SMALL + DYADIC + [1e-3, 1e5, -7.0, 1e-05, 2.5e-07, 1.5e+16, -3e-06], "c")
            return Const(c)
        if k == 1:
            return Var(self.pick(vs, "v"))
        if k == 2:
            op = self.pick(["+", "-", "*", "+"], "op")
            return Bin(op, self.g_real(D, depth - 1, counters), self.g_real(D, depth - 1, counters))
        if k == 3:
            if t.chance(0.3, "negbase"):
                return Pow(Const(self.pick([-1.5, -2.0, -0.5, -7.0], "nb")), 2 + t.draw(2, "pw"))
            return Pow(self.g_real(D, depth - 1, counters), 2 + t.draw(2, "pw"))
        if k == 4:
            if self.recent_conds and t.chance(0.35, "reusecond"):
                # the same condition as an earlier conditional expression (it must be evaluated again:
                # its variables may have changed in between)
                c = self.recent_conds[t.draw(len(self.recent_conds), "rc")]
                return IfX(c, self.g_real(D, depth - 1, counters), self.g_real(D, depth - 1, counters))
            if t.chance(0.35, "nestedif"):
                # a conditional expression nested in a branch of another one
                inner = IfX(self.g_cond(D, 0), self.g_real(D, 0, counters), self.g_real(D, 0, counters))
                other = self.g_real(D, 0, counters)
                return IfX(self.g_cond(D, 0), inner, other) if t.chance(0.5, "nestthen") else \
                    IfX(self.g_cond(D, 0), other, inner)
            c = self.g_cond(D, 0)
            self.recent_conds.append(c)
            return IfX(c, self.g_real(D, depth - 1, counters), self.g_real(D, depth - 1, counters))
        if k == 5:
            a = self.pick(sorted(arrs), "a")
            n = self.types[a][1]
            usable = [c for c in counters if self.counter_range.get(c, (0, 99))[1] <= n]
            if usable and t.chance(0.7, "ctr"):
                return Sub(a, Var(self.pick(usable, "c")))
            return Sub(a, Const(t.draw(n, "idx")))
        if k == 6:
            return Var(self.pick(list(counters), "cv"))
        if k == 7:
            return Bin("/", self.g_real(D, depth - 1, counters), Const(self.pick([2.0, 4.0, 8.0, 0.5], "den")))
        return Call("<builtin>elementwise_abs", [self.g_real(D, depth - 1, counters)])

    def g_cond(self, D, depth):
        """boolean over exactly computed scalars only (so that it cannot flip between back ends)."""
        t = self.tape
        bs = self.of(D, "bool")
        k = t.weighted([5, 1 if bs else 0, 1.5 if depth > 0 else 0, 1 if depth > 0 else 0, 0.4], "cond")
        if k == 4:
            # isnan of an exactly computed scalar or of a user-type value (never NaN here, but the
            # template, call isolation and Boolean result handling are exercised)
            # (scalars only: on a vector the interpreter's isnan is elementwise and cannot be a condition)
            return Call("<builtin>isnan", [self.g_exact(D, 1)])
        if k == 0:
            a = self.g_exact(D, 1)
            b = Const(self.pick([0.5, 1.5, 2.5, 0.75, -0.25, 3.5], "half"))
            op = self.pick(["<", ">", "<=", ">=", "!=", "=="], "cmp")
            if op in ("!=", "=="):
                b = Const(self.pick([1.0, 2.0, 0.0, 3.0], "eqc"))
            if getattr(self, "nan_s", False) and "<state>s" in D and t.chance(0.5, "nancmp"):
                # a comparison with the NaN scalar, plain or negated, on either side
                c = Cmp(op, Var("<state>s"), b) if t.chance(0.5, "nanleft") else Cmp(op, a, Var("<state>s"))
                return Not(c) if t.chance(0.6, "nanneg") else c
            return Cmp(op, a, b)
        if k == 1:
            return Var(self.pick(bs, "bv"))
        if k == 2:
            return Logic(self.pick(["and", "or"], "lop"), [self.g_cond(D, depth - 1), self.g_cond(D, depth - 1)])
        return Not(self.g_cond(D, depth - 1))

    def g_ut(self, D, depth, avoid=None, calls=False):
        """user-type valued expression with at least one typed term; never a bare variable."""
        t = self.tape
        uts = [u for u in self.of(D, "ut")]
        a = Var(self.pick(uts, "u1"))
        # (nested calls only on the right-hand side of assignments: the Fortran pipeline isolates calls
        # out of assignments, not out of yields)
        k = t.weighted([3, 3, 1.5 if depth > 0 else 0, 0.7, (2.5 if self.c12_bias else 1.0) if calls else 0], "ut")
        if k == 4:
            # a right-hand-side call inside an expression (the Fortran pipeline isolates it into a
            # statement of its own, with an id that repeats in every phase)
            fn = self.pick(["<func>f", "<func>g"], "nfn")
            self.used_funcs.add(fn)
            call = Call(fn, [Var("<t>"), a], [])
            form = t.draw(3, "nform")
            if form == 0:
                return Bin("*", Const(self.pick(DYADIC, "fc")), call)
            if form == 1:
                return Bin("+", call, Var(self.pick(uts, "u2")))
            return Bin("+", Var(self.pick(uts, "u2")), Bin("*", self.g_scal_factor(D), call))
        if k == 0:
            sc = self.g_scal_factor(D)
            return Bin("+", a, Bin("*", sc, Var(self.pick(uts, "u2"))))
        if k == 1:
            return Bin(self.pick(["+", "-"], "op"), a, Var(self.pick(uts, "u2")))
        if k == 2:
            return Bin("+", self.g_ut(D, depth - 1), Bin("*", self.g_scal_factor(D), Var(self.pick(uts, "u3"))))
        return Bin("*", self.g_scal_factor(D), a)

    def g_scal_factor(self, D):
        t = self.tape
        k = t.weighted([3, 3, 1], "fac")
        if k == 0:
            return Const(self.pick(DYADIC, "fc"))
        if k == 1:
            return Var(self.pick(["<dt>", "<dt>", "<t>"], "fdt"))
        vs = [v for v in self.of(D, "real")]
        return Var(self.pick(vs, "fv")) if vs else Const(0.5)

    # ---- statements
    def new_name(self, pool, ty, D, reuse_p=0.4):
        t = self.tape
        same = [n for n in pool if self.types.get(n) == ty]
        if same and t.chance(reuse_p, "reuse"):
            return self.pick(same, "old")
        fresh = [n for n in pool if n not in self.types]
        if not fresh:
            return self.pick(same, "old") if same else None
        n = self.pick(fresh, "new")
        self.types[n] = ty
        return n

    def gen_block(self, D, depth, n_ops):
        ops = []
        t = self.tape
        for _ in range(n_ops):
            with t.span("op"):
                uts = self.of(D, "ut")
                c12 = 2.0 if self.c12_bias else 1.0
                w = [3,                      # 0 rhs call -> ut temp
                     3,                      # 1 ut update (expression)
                     2 * c12,                # 2 ut move
                     3,                      # 3 scalar assign
                     1.5,                    # 4 counter increment
                     1.2,                    # 5 array block
                     2.5 * c12 if depth > 0 else 0,   # 6 if/else
                     2,                      # 7 yield
                     1.2 * c12,              # 8 guarded terminator
                     1,                      # 9 norm / builtin scalar
                     0.8,                    # 10 bool temp
                     0.7,                    # 11 accumulate loop
                     0.6,                    # 12 len()
                     0.8,                    # 13 elementwise_abs on a user type
                     1.4,                    # 14 array -> array built-ins (abs, transpose, matmul)
                     2.0 if "<state>v" in self.types else 0,   # 15 second user type "v"
                     1.2 if "<state>r" in self.types else 0,   # 16 two conditional expressions, same condition
                     1.0 if "<state>r" in self.types and depth >= 2 else 0,   # 17 array overwritten with other length
                     0.9,                    # 18 user function with two user-type results
                     1.0 if "<state>r" in self.types else 0,   # 19 scalar assigned an integer and a real
                     0.8,                    # 20 user function returning (scalar, user type)
                     1.5 if ("<state>v" in self.types and "<state>r" in self.types) else 0,   # 21 one built-in, both user types
                     1.0 * c12,              # 22 read, rebind, read again
                     1.0,                    # 23 temporary whose last use is a compound call argument
                     1.0,                    # 24 a 17-digit constant against the same value computed at run time
                     0.9]                    # 25 a statement with two loops whose order matters
                k = t.weighted(w, "opkind")
                op = self.gen_op(k, D, depth)
                if op is None:
                    continue
                if k == 14 and not isinstance(op, list) and op[0] == "call":
                    # read the first and last element of the built-in's result right away (bounds matter)
                    tgt = op[1][0]
                    n_res = self.types[tgt][1]
                    cands = [x for x in SC_TEMPS if self.cls.get(x, "inexact") == "inexact"]
                    rd = "<state>r" if ("<state>r" in self.types and t.chance(0.85, "rdpers")) else \
                        self.new_name(cands, "real", D)
                    if rd is not None:
                        self.cls[rd] = "inexact"
                        D.add(rd)
                        op = [op, ("assign", rd, None,
                                   Bin("+", Sub(tgt, Const(0)), Bin("*", Const(2.0), Sub(tgt, Const(n_res - 1)))),
                                   [], self.mode())]
                self.shape.append(k)
                if isinstance(op, list):
                    ops.extend(op)
                else:
                    ops.append(op)
        return ops

    def gen_op(self, k, D, depth):
        t = self.tape
        uts = self.of(D, "ut")
        if k == 0:
            tgt = self.new_name(UT_TEMPS, "ut", D)
            if tgt is None:
                return None
            fn = self.pick(["<func>f", "<func>f", "<func>g", "<func>h"], "fn")
            self.used_funcs.add(fn)
            te = [Var("<t>"), Bin("+", Var("<t>"), Bin("*", Const(self.pick([0.5, 1.0, 0.25], "tc")), Var("<dt>"))),
                  Bin("+", Var("<t>"), Var("<dt>"))][t.draw(3, "te")]
            srcs = [u for u in uts if u != tgt] or uts
            yarg = Var(self.pick(srcs, "arg"))
            if t.chance(0.25, "compoundarg"):
                # a compound argument (the Fortran pipeline isolates it into a temporary of its own)
                other = Var(self.pick(srcs, "arg_b"))
                yarg = [Bin("*", Const(self.pick(DYADIC, "argc")), yarg), Bin("+", yarg, other),
                        Bin("-", yarg, Bin("*", Var("<dt>"), other))][t.draw(3, "argform")]
            args = [te, yarg]
            kws = []
            if FFUNCS[fn][0] == 2:
                z = Var(self.pick(srcs, "arg2"))
                kwform = t.weighted([3, 2, 1, 1], "kw")
                if kwform == 1:
                    kws.append(("z", z))
                elif kwform == 2:
                    # both by keyword, written in non-alphabetical order
                    kws.extend([("z", z), ("y", args.pop())])
                elif kwform == 3:
                    kws.extend([("y", args.pop()), ("z", z)])
                else:
                    args.append(z)
            elif t.chance(0.2, "kwy"):
                kws.append(("y", args.pop()))
            D.add(tgt)
            call = ("call", (tgt,), Call(fn, args, kws), self.mode())
            pers = [u for u in uts if u.startswith("<state>")]
            if pers and t.chance(0.5, "useresult"):
                # the result flows into persistent state right away (a wrong call is then observable)
                p_ = self.pick(pers, "usep")
                return [call, ("assign", p_, None, Bin("+", Var(p_), Bin("*", self.g_scal_factor(D), Var(tgt))),
                               [], self.mode())]
            return call
        if k == 1:
            pers = [u for u in uts if u.startswith("<state>")]
            if pers and t.chance(0.6, "topers"):
                tgt = self.pick(pers, "pt")
            else:
                tgt = self.new_name(UT_TEMPS, "ut", D)
                if tgt is None:
                    return None
            e = self.g_ut(D, 1, calls=True)
            D.add(tgt)
            return ("assign", tgt, None, e, [], self.mode())
        if k == 2:
            src = self.pick(uts, "msrc")
            pers = [u for u in uts if u.startswith("<state>") and u != src]
            if pers and t.chance(0.4, "mpers"):
                tgt = self.pick(pers, "mp")
            else:
                tgt = self.new_name([n for n in UT_TEMPS if n != src], "ut", D)
                if tgt is None or tgt == src:
                    return None
            D.add(tgt)
            return ("assign", tgt, None, Var(src), [], self.mode())
        if k == 3:
            if self.pers_real and t.chance(0.35, "scpers"):
                tgt = self.pick(self.pers_real, "scp")
            else:
                tgt = self.new_name(SC_TEMPS + self.pers_real, "real", D)
            if tgt is None or tgt in self.counters_p:
                return None
            if tgt not in self.cls:
                self.cls[tgt] = "exact" if t.chance(0.6, "exactclass") else "inexact"
            if self.cls[tgt] == "exact":
                e = self.g_exact(D, 2)
                self.exact.add(tgt)
            else:
                e = self.g_real(D, 2)
            D.add(tgt)
            return ("assign", tgt, None, e, [], self.mode())
        if k == 4:
            c = self.pick(self.counters_p, "cnt")
            if c not in D:
                return None
            return ("assign", c, None, Bin("+", Var(c), Const(1.0)), [], self.mode())
        if k == 5:
            n = 2 + t.draw(3, "alen")
            a = self.new_name(ARR_TEMPS, ("arr", n), D, reuse_p=0.0)
            if a is None or a in D:
                return None
            self.counter_range = {"i": (0, n)}
            D.discard(a)
            init_e = self.g_real(D, 1, counters=("i",))
            uts_ = self.of(D, "ut")
            if uts_ and t.chance(0.4, "utinloop"):
                init_e = Bin("+", init_e, Bin("*", Var("i"), Call("<builtin>norm_2", [Var(self.pick(uts_, "lu"))])))
            out = [("call", (a,), Call("<builtin>array", [Const(n)]), self.mode()),
                   ("assign", a, Var("i"), init_e, [("i", Const(0), Const(n))], self.mode())]
            D.add(a)
            return out
        if k == 6:
            c = self.g_cond(D, 2)
            D_then = set(D)
            then = self.gen_block(D_then, depth - 1, 1 + t.draw(3, "nthen"))
            else_ = None
            if t.chance(0.45, "else"):
                D_else = set(D)
                else_ = self.gen_block(D_else, depth - 1, 1 + t.draw(2, "nelse"))
                D |= (D_then & D_else)
            if not then:
                return None
            return ("if", ("1", c, self.mode()), then, else_)
        if k == 7:
            if t.chance(0.6, "yvar"):
                e = Var(self.pick(uts, "yv"))
            else:
                e = self.g_ut(D, 0)
            te = [Var("<t>"), Bin("+", Var("<t>"), Var("<dt>")), Const(0.0)][t.weighted([3, 2, 1], "ytime")]
            return ("yield", e, "y", te, self.pick(["final", "mid", "t1"], "tid"), self.mode())
        if k == 8:
            opts = [("fail",), ("restart",)]
            if len(self.phase_names) > 1:
                opts.append(("switch", self.pick(self.phase_names, "sw")))
            if self.allow_raise and t.chance(0.15, "raise"):
                opts = [("raise", "ErrA", None)]
            term = self.pick(opts, "term")
            c = self.g_cond(D, 1)
            body = [term]
            if t.chance(0.3, "pre") and uts:
                # something allocated right before the early exit
                pre = self.gen_op(0, set(D), 0)     # defined only inside the guarded body
                if pre is not None:
                    body = (pre if isinstance(pre, list) else [pre]) + [term]
            return ("if", ("1", c, self.mode()), body, None)
        if k == 9:
            cands = [n for n in SC_TEMPS if self.cls.get(n, "inexact") == "inexact"]
            tgt = self.new_name(cands, "real", D)
            if tgt is None:
                return None
            self.cls[tgt] = "inexact"
            u = self.pick(uts, "nu")
            D.add(tgt)
            if t.chance(0.3, "nkw"):
                return ("call", (tgt,), Call("<builtin>norm_2", [], [("x", Var(u))]), self.mode())
            return ("call", (tgt,), Call("<builtin>norm_2", [Var(u)]), self.mode())
        if k == 10:
            tgt = self.new_name(["flag", "ok", "big"], "bool", D)
            if tgt is None:
                return None
            e = self.g_cond(D, 1)
            D.add(tgt)
            return ("assign", tgt, None, e, [], self.mode())
        if k == 11:
            arrs = [n for n in D if isinstance(self.types.get(n), tuple)]
            reals = [v for v in self.of(D, "real") if not v.startswith("<") and self.cls.get(v) == "inexact"]
            if not arrs or not reals:
                return None
            a = self.pick(sorted(arrs), "la")
            n = self.types[a][1]
            s = self.pick(reals, "acc")
            lo = t.draw(n, "lo")
            hi = lo + t.draw(n - lo + 1, "hi")
            self.counter_range = {"i": (lo, hi)}
            term = Sub(a, Var("i")) if t.chance(0.5, "accsub") else self.g_real(D - {s}, 1, counters=("i",))
            return ("assign", s, None, Bin("+", Var(s), term), [("i", Const(lo), Const(hi))], self.mode())
        if k == 12:
            arrs = sorted(n for n in D if isinstance(self.types.get(n), tuple))
            cands = [n for n in SC_TEMPS if self.cls.get(n, "exact") == "exact"]
            tgt = self.new_name(cands, "real", D)
            if tgt is None:
                return None
            self.cls[tgt] = "exact"
            self.exact.add(tgt)
            if self.struct and not arrs:
                return None
            src = self.pick(arrs, "lena") if arrs and (self.struct or t.chance(0.6, "lenarr")) else self.pick(uts, "lenu")
            D.add(tgt)
            return ("call", (tgt,), Call("<builtin>len", [Var(src)]), self.mode())
        if k == 13:
            tgt = self.new_name(UT_TEMPS, "ut", D)
            if tgt is None:
                return None
            src = self.pick(uts, "absu")
            if src == tgt:
                return None
            D.add(tgt)
            return ("call", (tgt,), Call("<builtin>elementwise_abs", [Var(src)]), self.mode())
        if k == 14:
            arrs = sorted(n for n in D if isinstance(self.types.get(n), tuple))
            if not arrs:
                return None
            a = self.pick(arrs, "ta")
            n = self.types[a][1]
            form = t.weighted([2, 2 if n in (2, 4) else 0, 1.5 if n in (2, 4) else 0, 2.5], "aform")
            if form == 3:
                # whole-array arithmetic assigned to an array variable; elements are read later
                bigger = [x for x in arrs if x != a and self.types[x][1] != n]
                if bigger and depth >= 2 and t.chance(0.4, "shrink"):
                    # an array variable that already holds storage of another length is overwritten
                    tgt = self.pick(bigger, "shr")
                    self.types[tgt] = ("arr", n)
                    self.n_shrink += 1
                else:
                    tgt = self.new_name([x for x in ARR_TEMPS if x != a], ("arr", n), D, reuse_p=0.0)
                    if tgt is None or tgt in D:
                        return None
                others = [x for x in arrs if self.types[x][1] == n and x != tgt] or [a]
                e = [Bin("+", Var(a), Var(self.pick(others, "wb"))),
                     Bin("*", Const(self.pick([2.0, 0.5, -1.0], "wc")), Var(a)),
                     Bin("-", Var(a), Bin("*", Var("<dt>"), Var(self.pick(others, "wb2"))))][t.draw(3, "wform")]
                D.add(tgt)
                out = [("assign", tgt, None, e, [], self.mode())]
                # read the first and last element right away (array bounds of the result matter)
                cands = [x for x in SC_TEMPS if self.cls.get(x, "inexact") == "inexact"]
                if "<state>r" in self.types and t.chance(0.85, "rdpers"):
                    rd = "<state>r"
                else:
                    rd = self.new_name(cands, "real", D)
                if rd is not None:
                    self.cls[rd] = "inexact"
                    D.add(rd)
                    out.append(("assign", rd, None, Bin("+", Sub(tgt, Const(0)), Bin("*", Const(2.0), Sub(tgt, Const(n - 1)))),
                                [], self.mode()))
                return out
            if form == 0:
                tgt = self.new_name([x for x in ARR_TEMPS if x != a], ("arr", n), D, reuse_p=0.0)
                if tgt is None or tgt in D:
                    return None
                D.add(tgt)
                return ("call", (tgt,), Call("<builtin>elementwise_abs", [Var(a)]), self.mode())
            if form == 1:
                tgt = self.new_name([x for x in ARR_TEMPS if x != a], ("arr", n), D, reuse_p=0.0)
                if tgt is None or tgt in D:
                    return None
                D.add(tgt)
                cols = Const(self.pick([1, 2] if n == 2 else [1, 2, 4], "tc"))
                if t.chance(0.4, "tkw"):
                    return ("call", (tgt,), Call("<builtin>transpose", [Var(a)], [("a_cols", cols)]), self.mode())
                return ("call", (tgt,), Call("<builtin>transpose", [Var(a), cols]), self.mode())
            # matmul of an n-array with itself: (r x c) . (c x r) with r*c = n  ->  r*r elements
            c = self.pick([1, 2] if n == 2 else [1, 2, 4], "mc")
            r = n // c
            tgt = self.new_name([x for x in ARR_TEMPS if x != a], ("arr", r * r), D, reuse_p=0.0)
            if tgt is None or tgt in D:
                return None
            D.add(tgt)
            kws = [("a_cols", Const(c)), ("b_cols", Const(r))]
            if t.chance(0.5, "mkw"):
                if t.chance(0.5, "mswap"):
                    kws.reverse()
                return ("call", (tgt,), Call("<builtin>matmul", [Var(a), Var(a)], kws), self.mode())
            return ("call", (tgt,), Call("<builtin>matmul", [Var(a), Var(a), Const(c), Const(r)]), self.mode())
        if k == 25:
            # a loop-carried update that does not commute: the nest must run in the declared order (first loop
            # outermost), and a triangular inner bound must see the outer variable
            cands = [x for x in SC_TEMPS if self.cls.get(x, "exact") == "exact"]
            h = self.new_name(cands, "real", D, reuse_p=0.0)
            if h is None or h in D:
                return None
            self.cls[h] = "exact"
            self.exact.add(h)
            D.add(h)
            n1, n2 = 2 + t.draw(2, "nl1"), 2 + t.draw(2, "nl2")
            inner_hi = Bin("+", Var("i"), Const(1)) if t.chance(0.4, "nltri") else Const(n2)
            body = Bin("-", Bin("+", Bin("*", Var(h), Const(2.0)), Var("i")), Bin("*", Const(2.0), Var("j")))
            obs = "<state>r" if "<state>r" in self.types else "<state>n"
            return [("assign", h, None, Const(1.0), [], self.mode()),
                    ("assign", h, None, body, [("i", Const(0), Const(n1)), ("j", Const(0), inner_hi)], self.mode()),
                    ("assign", obs, None, Bin("+", Var(obs), Var(h)), [], self.mode())]
        if k == 24:
            # a constant whose shortest representation needs 17 digits, compared with the same value computed
            # at run time from short constants (IEEE arithmetic gives the very same double in both back ends)
            cands = [x for x in SC_TEMPS if self.cls.get(x, "exact") == "exact"]
            ca = self.new_name(cands, "real", D, reuse_p=0.0)
            cb_ = self.new_name([x for x in cands if x != ca], "real", D, reuse_p=0.0)
            if ca is None or cb_ is None or ca in D or cb_ in D:
                return None
            for x in (ca, cb_):
                self.cls[x] = "exact"
                self.exact.add(x)
                D.add(x)
            lit_, e_ = [(0.1 + 0.2, Bin("+", Const(0.1), Const(0.2))), (0.1 + 0.7, Bin("+", Const(0.1), Const(0.7))),
                        (1.1 * 1.1, Bin("*", Const(1.1), Const(1.1)))][t.draw(3, "c17")]
            op = self.pick(["==", ">=", "<="], "c17op")
            bump = ("assign", "<state>n", None, Bin("+", Var("<state>n"), Const(1.0)), [], self.mode())
            return [("assign", ca, None, Const(lit_), [], self.mode()), ("assign", cb_, None, e_, [], self.mode()),
                    ("if", ("1", Cmp(op, Var(ca), Var(cb_)), self.mode()), [bump], None)]
        if k == 23:
            # a fresh user-type temporary whose only use is inside a compound argument of a call: its last use
            # is then a statement that the Fortran pipeline makes up (and names) itself
            u = self.new_name(UT_TEMPS, "ut", D, reuse_p=0.0)
            tgt = self.new_name([n for n in UT_TEMPS if n != u], "ut", D)
            if u is None or tgt is None or u in D or u == tgt:
                return None
            src = self.pick([x for x in uts if x not in (u, tgt)] or ["<state>y"], "lu_src")
            self.used_funcs.add("<func>f")
            D.add(u)
            D.add(tgt)
            arg = [Bin("*", Const(self.pick(DYADIC, "lu_c")), Var(u)), Bin("+", Var(u), Var(src)),
                   Bin("-", Var(src), Bin("*", Var("<dt>"), Var(u)))][t.draw(3, "lu_form")]
            return [("assign", u, None, Bin("+", Var(src), Bin("*", self.g_scal_factor(D), Var(src))), [], self.mode()),
                    ("call", (tgt,), Call("<func>f", [Var("<t>"), arg]), self.mode()),
                    ("assign", "<state>y", None, Bin("+", Var("<state>y"), Bin("*", Const(0.25), Var(tgt))), [],
                     self.mode())]
        if k == 22:
            # a user-type temporary is read element-wise, bound to other storage, and read element-wise again
            # in the same phase (whatever the generated code remembers about it from the first read is stale)
            u = self.new_name(UT_TEMPS, "ut", D, reuse_p=0.0)
            t1 = self.new_name([n for n in UT_TEMPS if n != u], "ut", D)
            if u is None or t1 is None or u in D or u == t1:
                return None
            srcs = [x for x in uts if x not in (u, t1)] or ["<state>y"]
            s1, s2 = self.pick(srcs, "rb1"), self.pick(srcs, "rb2")
            D.add(u)
            D.add(t1)
            first = ("assign", u, None, Bin("+", Var(s1), Bin("*", Const(0.5), Var(s2))), [], self.mode())
            read1 = ("assign", t1, None, Bin("+", Var(u), Bin("*", self.g_scal_factor(D), Var(s1))), [], self.mode())
            if t.chance(0.5, "rebind_by_call"):
                self.used_funcs.add("<func>f")
                rebind = ("call", (u,), Call("<func>f", [Var("<t>"), Var(s2)]), self.mode())
            else:
                rebind = ("assign", u, None, Var(s2), [], self.mode())
            read2 = ("assign", "<state>y", None,
                     Bin("+", Var("<state>y"), Bin("*", Const(self.pick(DYADIC, "rbc")), Bin("+", Var(u), Var(t1)))), [],
                     self.mode())
            return [first, read1, rebind, read2]
        if k == 21:
            # the same built-in applied to a value of each user type (their lengths differ) in one phase, in
            # either order; both results end up in persistent state
            cands = [x for x in SC_TEMPS if self.cls.get(x, "inexact") == "inexact"]
            r1 = self.new_name(cands, "real", D, reuse_p=0.0)
            r2 = self.new_name([x for x in cands if x != r1], "real", D, reuse_p=0.0)
            if r1 is None or r2 is None or r1 in D or r2 in D:
                return None
            self.cls[r1] = self.cls[r2] = "inexact"
            D.add(r1)
            D.add(r2)
            fn = self.pick(["<builtin>norm_2", "<builtin>len", "<builtin>norm_2"], "bothfn")
            uy = self.pick(uts, "bothy")
            vs_ = self.of(D, "utv") or ["<state>v"]
            uv = self.pick(vs_, "bothv")
            calls = [("call", (r1,), Call(fn, [Var(uy)]), self.mode()), ("call", (r2,), Call(fn, [Var(uv)]), self.mode())]
            if t.chance(0.5, "bothorder"):
                calls.reverse()
            return calls + [("assign", "<state>r", None, Bin("+", Var(r1), Bin("*", Const(10.0), Var(r2))), [],
                             self.mode())]
        if k == 20:
            cands = [x for x in SC_TEMPS if self.cls.get(x, "inexact") == "inexact"]
            e_ = self.new_name(cands, "real", D)
            r_ = self.new_name(UT_TEMPS, "ut", D)
            if e_ is None or r_ is None:
                return None
            self.cls[e_] = "inexact"
            srcs = [u for u in uts if u != r_] or ["<state>y"]
            self.used_funcs.add(FMIX[0])
            D.add(e_)
            D.add(r_)
            out = [("call", (e_, r_), Call(FMIX[0], [Var("<t>"), Var(self.pick(srcs, "arg"))]), self.mode())]
            if t.chance(0.6, "usemix"):
                out.append(("assign", "<state>y", None,
                            Bin("+", Var("<state>y"), Bin("*", Var(e_), Var(r_))), [], self.mode()))
            return out
        if k == 19:
            # one scalar holds an integer-valued result (len) and a real value in the same phase, in either
            # order; its kind is the join of both, and the real value must survive
            arrs = sorted(n for n in D if isinstance(self.types.get(n), tuple))
            if self.struct and not arrs:
                return None
            cands = [x for x in SC_TEMPS if self.cls.get(x, "inexact") == "inexact"]
            tgt = self.new_name(cands, "real", D)
            if tgt is None:
                return None
            self.cls[tgt] = "inexact"
            D.add(tgt)
            src = self.pick(arrs, "lena") if arrs and (self.struct or t.chance(0.5, "lenarr")) else self.pick(uts, "lenu")
            a_int = ("call", (tgt,), Call("<builtin>len", [Var(src)]), self.mode())
            a_real = ("assign", tgt, None, Bin("*", Const(self.pick([0.75, 0.375, 1.25], "mixc")), Var("<dt>")), [],
                      self.mode())

            def use():
                return ("assign", "<state>r", None, Bin("+", Var("<state>r"), Var(tgt)), [], self.mode())
            if t.chance(0.6, "mixsum"):
                # ... or an integer-kinded term (an integer constant, or the counter of a loop around a plain
                # scalar assignment: the last trip wins) meets a real term in one sum
                real_term = Bin("*", Const(self.pick([0.75, 0.375, 1.25], "mixc2")), Var("<dt>"))
                loops = []
                if t.chance(0.5, "mixloop"):
                    it = Var("i")
                    loops = [("i", Const(0), Const(2 + t.draw(3, "mixn")))]
                else:
                    it = Const(self.pick([2, 1, 3, -1], "mixint"))
                e = [Bin("+", real_term, it), Bin("+", it, real_term), Bin("*", real_term, it),
                     Bin("-", it, real_term)][t.draw(4, "mixform")]
                out = [("assign", tgt, None, e, loops, self.mode())]
                if t.chance(0.5, "mixcopy"):
                    # a plain copy of the result has no other source for its kind
                    cp = self.new_name([x for x in cands if x != tgt], "real", D, reuse_p=0.0)
                    if cp is not None and cp not in D:
                        self.cls[cp] = "inexact"
                        D.add(cp)
                        out.append(("assign", cp, None, Var(tgt), [], self.mode()))
                        out.append(("assign", "<state>r", None, Bin("+", Var("<state>r"), Var(cp)), [], self.mode()))
                        return out
                return out + [use()]
            first, second = (a_int, a_real) if t.chance(0.5, "intfirst") else (a_real, a_int)
            return [first, use(), second, use()]
        if k == 18:
            t1 = self.new_name(UT_TEMPS, "ut", D)
            t2 = self.new_name([n for n in UT_TEMPS if n != t1], "ut", D)
            if t1 is None or t2 is None or t1 == t2:
                return None
            srcs = [u for u in uts if u not in (t1, t2)] or ["<state>y"]
            self.used_funcs.add(FTWO[0])
            D.add(t1)
            D.add(t2)
            out = [("call", (t1, t2), Call(FTWO[0], [Var("<t>"), Var(self.pick(srcs, "arg"))]), self.mode())]
            if t.chance(0.6, "usetwo"):
                out.append(("assign", "<state>y", None,
                            Bin("+", Var("<state>y"), Bin("*", Const(0.25), Bin("-", Var(t1), Var(t2)))), [], self.mode()))
            return out
        if k == 17:
            free = [x for x in ARR_TEMPS if x not in self.types or x not in D]
            if len(free) < 2:
                return None
            A, B = free[0], free[1]
            n1 = 3 + t.draw(2, "n1")
            n2 = n1 - 1 if t.chance(0.6, "shorter") else n1 + 1
            self.types[A] = ("arr", n2)      # its final length
            self.types[B] = ("arr", n2)
            self.n_shrink += 1
            D.add(A)
            D.add(B)
            e = [Bin("+", Var(B), Var(B)), Bin("*", Const(2.0), Var(B)),
                 Bin("-", Var(B), Bin("*", Var("<dt>"), Var(B)))][t.draw(3, "shrform")]
            out = [("call", (A,), Call("<builtin>array", [Const(n1)]), self.mode()),
                   ("assign", A, Var("i"), Bin("+", Var("i"), Const(0.5)), [("i", Const(0), Const(n1))], self.mode()),
                   ("call", (B,), Call("<builtin>array", [Const(n2)]), self.mode()),
                   ("assign", B, Var("i"), Bin("*", Var("i"), Const(1.5)), [("i", Const(0), Const(n2))], self.mode()),
                   ("assign", A, None, e, [], self.mode())]
            last = A
            if len(free) >= 4 and t.chance(0.5, "chain"):
                # a chain of whole-array assignments to names that were never allocated: their kind is
                # known only through the previous link, and a constant term is known before that
                C, E = free[2], free[3]
                self.types[C] = ("arr", n2)
                self.types[E] = ("arr", n2)
                D.add(C)
                D.add(E)
                e2 = [Bin("+", Var(A), Const(0.5)), Bin("+", Const(1.0), Var(A)),
                      Bin("-", Var(A), Bin("*", Var("<dt>"), Var(A)))][t.draw(3, "chainform")]
                e3 = [Bin("*", Const(2.0), Var(C)), Bin("+", Var(C), Var(C)),
                      Bin("+", Var(C), Const(1.0))][t.draw(3, "chainform2")]
                out.append(("assign", C, None, e2, [], self.mode()))
                out.append(("assign", E, None, e3, [], self.mode()))
                last = E
            out.append(("assign", "<state>r", None,
                        Bin("+", Sub(last, Const(0)), Bin("*", Const(2.0), Sub(last, Const(n2 - 1)))), [], self.mode()))
            return out
        if k == 16:
            # two conditional expressions with the *same* condition, and a write to the condition's
            # variable between them: the condition must be evaluated twice
            thr = Const(self.pick([1.5, 2.5, 3.5, 4.5], "thr"))
            c = Cmp(self.pick(["<", ">=", ">", "<="], "cpop"), Var("<state>n"), thr)
            cands = [x for x in SC_TEMPS if self.cls.get(x, "inexact") == "inexact"]
            r1 = self.new_name(cands, "real", D)
            if r1 is None:
                return None
            self.cls[r1] = "inexact"
            D.add(r1)
            self.n_condpair += 1
            a1, b1, a2, b2 = [Const(self.pick([1.0, 2.0, -3.0, 0.5, 7.0, -0.25], "cpv")) for _ in range(4)]
            if a1.v == b1.v:
                b1 = Const(a1.v + 1.0)
            if a2.v == b2.v:
                b2 = Const(a2.v + 1.0)
            return [("assign", r1, None, IfX(c, a1, b1), [], self.mode()),
                    ("assign", "<state>n", None, Bin("+", Var("<state>n"), Const(1.0)), [], self.mode()),
                    ("assign", "<state>r", None, Bin("+", IfX(c, a2, b2), Bin("*", Const(10.0), Var(r1))), [], self.mode())]
        if k == 15:
            vs_ = self.of(D, "utv")
            form = t.weighted([3, 3 if "kv" in D else 0, 2, 2, 1.5 if "v2" in D else 0, 2.5], "vform")
            if form == 5:
                # the same built-ins that are also applied to values of the other user type
                src = self.pick(vs_, "bsrc") if vs_ else "<state>v"
                which = t.draw(3, "vbuiltin")
                if which == 2:
                    self.types["v2"] = "utv"
                    if src == "v2":
                        src = "<state>v"
                    D.add("v2")
                    return ("call", ("v2",), Call("<builtin>elementwise_abs", [Var(src)]), self.mode())
                cands = [n for n in SC_TEMPS if self.cls.get(n, "inexact") == "inexact"]
                tgt = "<state>r" if ("<state>r" in self.types and t.chance(0.6, "vrd")) else self.new_name(cands, "real", D)
                if tgt is None:
                    return None
                self.cls[tgt] = "inexact"
                D.add(tgt)
                fn = "<builtin>norm_2" if which == 0 else "<builtin>len"
                return ("call", (tgt,), Call(fn, [Var(src)]), self.mode())
            if form == 0:
                self.types["kv"] = "utv"
                self.used_v = True
                D.add("kv")
                src = self.pick(vs_, "vsrc") if vs_ else "<state>v"
                if src == "kv":
                    src = "<state>v"
                return ("call", ("kv",), Call("<func>fv", [Var("<t>"), Var(src)]), self.mode())
            if form == 1:
                return ("assign", "<state>v", None,
                        Bin("+", Var("<state>v"), Bin("*", self.g_scal_factor(D), Var("kv"))), [], self.mode())
            if form == 2:
                self.types["v2"] = "utv"
                D.add("v2")
                return ("assign", "v2", None, Var("<state>v"), [], self.mode())
            if form == 3:
                e = Var(self.pick(vs_, "yv")) if vs_ else Var("<state>v")
                te = [Var("<t>"), Bin("+", Var("<t>"), Var("<dt>"))][t.draw(2, "vtime")]
                return ("yield", e, "v", te, self.pick(["final", "mid", "t1"], "tid"), self.mode())
            return ("assign", "<state>v", None, Var("v2"), [], self.mode())
        return None

    def poly_block(self, role):
        t = self.tape
        n = 3 + t.draw(2, "polyn")
        m = self.mode

        def filled(name, e):
            return [("call", (name,), Call("<builtin>array", [Const(n)]), m()),
                    ("assign", name, Var("i"), e, [("i", Const(0), Const(n))], m())]

        def read(name):
            return ("assign", "<state>r", None,
                    Bin("+", Sub(name, Const(0)), Bin("*", Const(2.0), Sub(name, Const(n - 1)))), [], m())
        if role == "scalar":
            return ([("assign", "pz", None, Bin("*", Const(2.0), Var("<dt>")), [], m())]
                    + filled("pa", Bin("+", Var("i"), Const(0.5))) + filled("pb", Bin("*", Var("i"), Const(1.5)))
                    + [("assign", "pb", None, Bin("*", Var("pz"), Var("pa")), [], m()), read("pb")])
        e = [Bin("*", Const(2.0), Var("pz")), Bin("+", Var("pz"), Var("pz")),
             Bin("-", Var("pz"), Bin("*", Var("<dt>"), Var("pz")))][t.draw(3, "polyform")]
        # (the target either does not exist yet or has another length: it gets new storage here)
        pre = []
        if t.chance(0.5, "polyprealloc"):
            pre = [("call", ("pc",), Call("<builtin>array", [Const(n + 1)]), m()),
                   ("assign", "pc", Var("i"), Bin("*", Var("i"), Const(1.5)), [("i", Const(0), Const(n + 1))], m())]
        return (filled("pz", Bin("+", Var("i"), Const(0.5))) + pre
                + [("assign", "pc", None, e, [], m()), read("pc")])

    def gen(self):
        t = self.tape
        sc = FScript()
        with t.span("sizes"):
            n_ph = 1 + t.draw(3, "nph")
            pool = ["main", "init", "alt"]
            names = [pool.pop(t.draw(len(pool), "ph")) for _ in range(n_ph)]
            self.phase_names = names
            sc.initial = names[0]
            self.N = 2 + t.draw(3, "N")
            # structure variant of user type "y": an inline array member a(NA) and a pointer member b(:)
            # of NB elements; on the Python side the value is the concatenation of both
            self.struct = None
            if t.chance(0.3, "struct"):
                nb = 1 + t.draw(2, "NB")
                self.struct = (self.N, nb)
                self.N = self.N + nb
        with t.span("state"):
            self.types["<state>y"] = "ut"
            sc.state0["y"] = np.array([float(self.pick(SMALL + DYADIC, "y0")) for _ in range(self.N)])
            if t.chance(0.4, "state_w"):
                self.types["<state>w"] = "ut"
                sc.state0["w"] = np.array([float(self.pick(SMALL + DYADIC, "w0")) for _ in range(self.N)])
            self.M = 2 + t.draw(3, "M")
            self.used_v = False
            if t.chance(0.45, "state_v"):
                self.types["<state>v"] = "utv"
                sc.state0["v"] = np.array([float(self.pick(SMALL + DYADIC, "v0")) for _ in range(self.M)])
            # counters and scalars are <state> scalars so that initialize() sets them
            self.counters_p = ["<state>n"]
            self.types["<state>n"] = "real"
            self.exact.add("<state>n")
            sc.state0["n"] = float(t.draw(3, "n0"))
            self.pers_real = []
            if t.chance(0.5, "state_s"):
                self.types["<state>s"] = "real"
                self.exact.add("<state>s")
                sc.state0["s"] = float(self.pick(SMALL, "s0"))
                if t.chance(0.12, "s_nan"):
                    # a persistent scalar that is not a number from the start: every comparison with it is
                    # false in both back ends (and a negated comparison true)
                    sc.state0["s"] = float("nan")
                    sc.has_nan = True
                    self.nan_s = True
                self.pers_real.append("<state>s")
                if t.chance(0.4, "state_S"):
                    # a second persistent scalar whose name differs in case only: both compete for one
                    # (case-insensitive) Fortran identifier
                    self.types["<state>S"] = "real"
                    self.exact.add("<state>S")
                    sc.state0["S"] = float(self.pick(SMALL, "S0"))
                    self.pers_real.append("<state>S")
            if t.chance(0.8, "state_r"):
                self.types["<state>r"] = "real"
                sc.state0["r"] = float(self.pick(SMALL + [1e-05, -3.0], "r0"))
                self.pers_real.append("<state>r")
                self.inexact_pers = True
            sc.t0 = float(self.pick([0.0, 0.5, 1.0], "t0"))
            sc.dt0 = float(self.pick([0.5, 0.25, 1.0], "dt0"))
            self.types["<t>"] = "real"
            self.types["<dt>"] = "real"
            self.exact |= {"<t>", "<dt>"}
        self.cls = {n: "exact" for n in self.exact}
        if "<state>r" in self.types:
            self.cls["<state>r"] = "inexact"
        persistent = set(self.types)
        prev_core = None
        # a per-step name that is a scalar in one phase and an array in another (per-phase kinds)
        poly_plan = None
        with t.span("polyname"):
            if len(names) >= 2 and "<state>r" in self.types and t.chance(0.25, "polyname"):
                order = [i for i in t.perm(len(names), "polyphases")][:2]
                poly_plan = {order[0]: "scalar", order[1]: "array"}
                self.n_poly = 1
        for pi, name in enumerate(names):
            with t.span("phase"):
                D = set(persistent)
                self.counter_range = {}
                self.recent_conds = []
                nxt = names[t.draw(len(names), "next")] if t.chance(0.5, "nextrand") else names[(pi + 1) % len(names)]
                ops = []
                if t.chance(0.8, "count"):
                    ops.append(("assign", "<state>n", None, Bin("+", Var("<state>n"), Const(1.0)), [], self.mode()))
                if pi > 0 and prev_core is not None and t.chance(0.45 if self.c12_bias else 0.25, "twinphase"):
                    # twin of the previous phase: the same statements under the same local names (and so
                    # the same generated statement ids and temporaries in both phases), followed by further
                    # reads of its user-type temporaries -- what is a last use in one phase is not in the other
                    core = _clone_ops(prev_core[0])
                    D = set(prev_core[1])
                    for u in sorted(D):
                        if self.types.get(u) == "ut" and not u.startswith("<") and t.chance(0.6, "twinuse"):
                            core.append(("assign", "<state>y", None,
                                         Bin("+", Var("<state>y"), Bin("*", Const(0.5), Var(u))), [], self.mode()))
                    self.n_twin = getattr(self, "n_twin", 0) + 1
                else:
                    core = self.gen_block(D, 2, 1 + t.draw(self.max_ops, "nops"))
                prev_core = (core, set(D))
                ops += core
                if poly_plan is not None and pi in poly_plan:
                    ops += self.poly_block(poly_plan[pi])
                # typing anchor and time advance
                if not any(op[0] == "call" and op[2].fn in FFUNCS for op in _flat(ops)) or t.chance(0.5, "anchor"):
                    self.used_funcs.add("<func>f")
                    ops.append(("call", ("k",), Call("<func>f", [Var("<t>"), Var("<state>y")]), self.mode()))
                    self.types["k"] = "ut"
                    ops.append(("assign", "<state>y", None,
                                Bin("+", Var("<state>y"), Bin("*", Var("<dt>"), Var("k"))), [], self.mode()))
                if t.chance(0.85, "advance"):
                    ops.append(("assign", "<t>", None, Bin("+", Var("<t>"), Var("<dt>")), [], self.mode()))
                if t.chance(0.7, "finalyield"):
                    ops.append(("yield", Var("<state>y"), "y", Var("<t>"), "final", "o"))
                sc.phases.append(PhaseS(name, nxt, ops))
        # every persistent variable that is used must also be assigned somewhere, otherwise kind
        # inference cannot type it (a read-only state variable is outside the Fortran subset)
        from simdag.gen.expr import expr_vars
        used, assigned = set(), set()
        for ph in sc.phases:
            for op in _flat_all(ph.ops):
                if op[0] == "assign":
                    assigned.add(op[1])
                    exprs = [op[3]] + ([op[2]] if op[2] is not None else [])
                elif op[0] == "call":
                    assigned.update(op[1])
                    exprs = [op[2]]
                elif op[0] == "yield":
                    exprs = [op[1], op[3]]
                elif op[0] == "ifcond":
                    exprs = [op[1]]
                else:
                    exprs = []
                for e in exprs:
                    used.update(expr_vars(e))
        tail = sc.phases[-1].ops
        for v in sorted(used - assigned):
            if not v.startswith("<state>"):
                continue
            if self.types.get(v) == "real":
                tail.append(("assign", v, None, Bin("+", Var(v), Const(0.5)), [], "o"))
            elif self.types.get(v) == "utv":
                self.used_v = True
                self.types["kv"] = "utv"
                tail.append(("call", ("kv",), Call("<func>fv", [Var("<t>"), Var(v)]), "o"))
                tail.append(("assign", v, None, Bin("+", Var(v), Bin("*", Var("<dt>"), Var("kv"))), [], "o"))
            elif self.types.get(v) == "ut":
                self.used_funcs.add("<func>f")
                self.types["k"] = "ut"
                tail.append(("call", ("k",), Call("<func>f", [Var("<t>"), Var(v)]), "o"))
                tail.append(("assign", v, None, Bin("+", Var(v), Bin("*", Var("<dt>"), Var("k"))), [], "o"))
        sc.types = dict(self.types)
        sc.funcs = sorted(self.used_funcs)
        sc.func_alias = {}
        sc.shape_sig = list(self.shape)
        sc.N = self.N
        sc.n_shrink = self.n_shrink
        sc.n_condpair = self.n_condpair
        sc.n_twin = getattr(self, "n_twin", 0)
        sc.n_poly = getattr(self, "n_poly", 0)
        sc.struct = self.struct
        sc.M = self.M
        sc.has_v = any(("<state>v" in (op[1],) if op[0] == "assign" else False) or
                       (op[0] == "call" and op[2].fn == "<func>fv") or
                       (op[0] == "yield" and op[2] == "v") for ph in sc.phases for op in _flat(ph.ops)) \
            or self.used_v
        if sc.has_v and "<func>fv" not in sc.funcs:
            sc.funcs = sorted(set(sc.funcs) | {"<func>fv"})
        sc.exact = set(self.exact)
        return sc


def _clone_ops(ops):
    out = []
    for op in ops:
        if op[0] == "if":
            out.append(("if", op[1], _clone_ops(op[2]), _clone_ops(op[3]) if op[3] else op[3]))
        else:
            out.append(tuple(list(op)))
    return out


def _flat(ops):
    for op in ops:
        if op[0] == "if":
            yield from _flat(op[2])
            if op[3]:
                yield from _flat(op[3])
        else:
            yield op


def _flat_all(ops):
    """all primitive ops plus ('ifcond', expr) pseudo-ops for the conditions."""
    for op in ops:
        if op[0] == "if":
            yield ("ifcond", op[1][1])
            yield from _flat_all(op[2])
            if op[3]:
                yield from _flat_all(op[3])
        else:
            yield op


def module_preamble(sc):
    if not getattr(sc, "struct", None):
        return None
    na, nb = sc.struct
    return """
        type ytype
          real*8 :: a(%d)
          real*8, pointer :: b(:)
        end type
        """ % na


def user_type_map(sc, default_index=False):
    """default_index: let ArrayType name its index variables itself (from its class-wide counter, at
    construction); the type objects are then part of the description and must be made once."""
    import dagrt.codegen.fortran as f

    def iv(name):
        return {} if default_index else {"index_vars": name}
    if getattr(sc, "struct", None):
        na, nb = sc.struct
        m = {"y": f.StructureType("ytype", (
            ("a", f.ArrayType((na,), f.BuiltinType("real*8"), **iv("iv"))),
            ("b", f.PointerType(f.ArrayType((nb,), f.BuiltinType("real*8"), **iv("kw"))))))}
    else:
        m = {"y": f.ArrayType((sc.N,), f.BuiltinType("real*8"), **iv("iv"))}
    if getattr(sc, "has_v", False):
        m["v"] = f.ArrayType((sc.M,), f.BuiltinType("real*8"), **iv("jv"))
    return m


def make_registry(sc):
    """function registry with Fortran CallCode templates + the Python twins."""
    import dagrt.codegen.fortran as f
    from dagrt.function_registry import base_function_registry, register_ode_rhs
    freg = base_function_registry
    twins = {}
    for fn in sc.funcs:
        if fn == FV[0]:
            freg = register_ode_rhs(freg, "v", identifier=fn, input_type_ids=("v",), input_names=("v",))
            freg = freg.register_codegen(fn, "fortran", f.CallCode("\n    " + FV[1] + "\n    "))
            twins[fn] = FV[2]
            continue
        if fn == FMIX[0]:
            from dagrt.data import Scalar, UserType
            from dagrt.function_registry import register_function
            freg = register_function(freg, fn, ("t", "y"), result_names=("e", "r"),
                                     result_kinds=(Scalar(is_real_valued=True), UserType("y")))
            members = ["%a", "%b"] if getattr(sc, "struct", None) else [""]
            text = "    " + FMIX[1] + "\n" + "\n".join("    " + FMIX[2].replace("{m}", m_) for m_ in members)
            freg = freg.register_codegen(fn, "fortran", f.CallCode("\n" + text + "\n    "))
            twins[fn] = FMIX[3]
            continue
        if fn == FTWO[0]:
            from dagrt.data import UserType
            from dagrt.function_registry import register_function
            freg = register_function(freg, fn, ("t", "y"), result_names=("r1", "r2"),
                                     result_kinds=(UserType("y"), UserType("y")))
            members = ["%a", "%b"] if getattr(sc, "struct", None) else [""]
            text = "\n".join("    " + ln.replace("{m}", m_) for m_ in members for ln in FTWO[1])
            freg = freg.register_codegen(fn, "fortran", f.CallCode("\n" + text + "\n    "))
            twins[fn] = FTWO[2]
            continue
        n_in, body, twin = FFUNCS[fn]
        names = ("y", "z")[:n_in]
        freg = register_ode_rhs(freg, "y", identifier=fn, input_type_ids=("y",) * n_in, input_names=names)
        members = ["%a", "%b"] if getattr(sc, "struct", None) else [""]
        text = "\n".join("    " + body.replace("{m}", m_) for m_ in members)
        freg = freg.register_codegen(fn, "fortran", f.CallCode("\n" + text + "\n    "))
        twins[fn] = twin
    return freg, twins
