"""Kind-inference workloads (C14): Fortran-subset scripts and kind-adversarial
statement lists that need not be runnable.  Well-kinded by construction: every
variable belongs to one family (scalar / boolean / array / user type) so that
no unification failure is expected; the presentation order is what varies."""
from simdag.core.tape import Tape

SCAL = ["x", "y", "z", "u", "v", "<p>g", "<p>h", "i", "j"]
# local names whose family is drawn *per phase*: the same name is a scalar in one phase and a flag or a
# user type in another (per-phase tables must be independent)
POLY = ["q", "r2", "t", "dt", "d"]        # (t, dt, d: per-step names that merely look like <t> and <dt>)
BOOL = ["b1", "b2", "<p>flag"]
ARR = ["a", "arr", "<p>A"]
UT = ["k", "k2", "w", "<state>y", "<state>w"]


def build_kind_program(values, source):
    """-> (phase names, list of statement lists, function registry)."""
    if source == "fortran":
        from simdag.gen.fortran_subset import FortranGen, make_registry
        from simdag.gen.script import apply_script
        tape = Tape(recorded=values)
        sc = FortranGen(tape, max_ops=8).gen()
        ap = apply_script(sc)
        freg, _ = make_registry(sc)
        names = [ph.name for ph in sc.phases]
        return names, [list(ap.builders[n].statements) for n in names], freg
    if source == "chain":
        return chain(Tape(recorded=values))
    return adversarial(Tape(recorded=values))


def chain(tape):
    """One long chain of sums, each link known provisionally from its constant term before the
    previous link is known: x0 <- base; x1 <- x0 + c; ... ; the kind of every link is the base's.
    Presented (after permutation) in any order, so some presentations resolve one link per sweep."""
    import dagrt.codegen.fortran as f
    from dagrt.function_registry import base_function_registry, register_ode_rhs
    from dagrt.language import CodeBuilder
    freg = register_ode_rhs(base_function_registry, "y", identifier="<func>f", input_names=("y",))
    freg = freg.register_codegen("<func>f", "fortran", f.CallCode("\n    ${result} = -2*${y}\n    "))
    n = 6 + tape.draw(10, "chainlen")
    base = tape.draw(4, "chainbase")
    with CodeBuilder("main") as cb:
        cb("<state>y", "<state>y + <dt>*<func>f(<t>, <state>y)")
        if base == 0:
            cb("x0", 1j)
        elif base == 1:
            cb("x0", "<func>f(<t>, <state>y)")
        elif base == 2:
            cb("x0", "`<builtin>array`(3)")
        else:
            cb("x0", "2.5")
        for i in range(1, n):
            form = tape.draw(4, "linkform")
            prev = "x%d" % (i - 1)
            if form == 0:
                cb("x%d" % i, "%s + 1" % prev)
            elif form == 1:
                cb("x%d" % i, "2 + %s" % prev)
            elif form == 2:
                cb("x%d" % i, "%s + <dt>" % prev)
            else:
                # a call whose result kind follows its argument's, in the middle of the chain
                cb("x%d" % i, "`<builtin>elementwise_abs`(%s)" % prev)
        cb("last", "x%d" % (n - 1))
        if base in (1, 2):
            # a function of two links (its result kind is looked up while the links may be provisional)
            # (links near the base: both orders -- arguments known / still provisional -- are likely)
            i1, i2 = tape.draw(3, "dot1"), tape.draw(3, "dot2")
            cb("dp", "`<builtin>dot_product`(x%d, x%d)" % (i1, i2))
            cb("dp_copy", "dp")
    return ["main"], [list(cb.statements)], freg


def adversarial(tape):
    import dagrt.codegen.fortran as f
    from dagrt.function_registry import base_function_registry, register_ode_rhs
    from dagrt.language import CodeBuilder
    freg = register_ode_rhs(base_function_registry, "y", identifier="<func>f", input_names=("y",))
    freg = freg.register_codegen("<func>f", "fortran", f.CallCode("\n    ${result} = -2*${y}\n    "))
    n_ph = 1 + tape.draw(3, "nph")
    names = ["main", "init", "alt"][:n_ph]
    phases = []
    for pi, name in enumerate(names):
        with tape.span("kphase"):
            with CodeBuilder(name) as cb:
                n = 3 + tape.draw(12, "nstmts")
                for pn in POLY:
                    fam = tape.draw(4, "polyfam")
                    if fam == 0:
                        cb(pn, "2.5")
                    elif fam == 1:
                        cb(pn, "<t> < 1")
                    elif fam == 2:
                        cb(pn, "<func>f(<t>, <state>y)")
                    if fam != 3 and tape.chance(0.5, "polyuse"):
                        cb("%s_copy" % pn, pn)
                # the anchors first (presentation order is permuted later anyway)
                cb("<state>y", "<state>y + <dt>*<func>f(<t>, <state>y)")
                for _ in range(n):
                    with tape.span("kstmt"):
                        k = tape.weighted([6, 3, 1.5, 2, 2.5, 1, 1.5, 1], "kkind")
                        s = SCAL[tape.draw(len(SCAL), "sv")]
                        s2 = SCAL[tape.draw(len(SCAL), "sv2")]
                        s3 = SCAL[tape.draw(len(SCAL), "sv3")]
                        if k == 0:
                            # chain link: needs the other variable to be known first
                            cb(s, [s2, "%s + %s" % (s2, s3), "2*%s" % s2, "%s*%s" % (s2, s3),
                                   "%s + %s + 1" % (s2, s3), "%s - %s" % (s3, s2)][tape.draw(6, "form")])
                        elif k == 1:
                            cb(s, ["1", 1j, "2.5", 3 + 2j, "-1", 2j][tape.draw(6, "const")])
                        elif k == 2:
                            b = BOOL[tape.draw(len(BOOL), "bv")]
                            cb(b, ["%s < %s" % (s, s2), "%s > 1 and %s < 2" % (s, s2), "not (%s == 3)" % s][
                                tape.draw(3, "bform")])
                        elif k == 3:
                            a = ARR[tape.draw(len(ARR), "av")]
                            a2 = ARR[tape.draw(len(ARR), "av2")]
                            a3 = ARR[tape.draw(len(ARR), "av3")]
                            aform = tape.draw(7, "aform")
                            if aform == 5:
                                # result kind follows the argument's (which may still be provisional)
                                cb(a, "`<builtin>elementwise_abs`(%s)" % a2)
                            elif aform == 6:
                                cb(a, "`<builtin>transpose`(%s, 1)" % a2)
                            elif aform == 0:
                                cb(a, "`<builtin>array`(3)")
                            elif aform == 1:
                                # array sum with a (possibly complex) scalar factor: the kind of the sum
                                # must not depend on which term happens to be known first
                                cb(a, "%s + %s*%s" % (a2, s, a3))
                            elif aform == 2:
                                from pymbolic import var as _v
                                cb(a, _v(a2) + 1j * _v(a3))
                            elif aform == 3:
                                cb(a, "%s + %s" % (a2, a3))
                            else:
                                cb("%s[%s]" % (a, ["i", "j"][tape.draw(2)]), "%s + 1" % s,
                                   loops=[(["i", "j"][tape.draw(2)], 0, 3)])
                        elif k == 4:
                            u = UT[tape.draw(len(UT), "uv")]
                            u2 = UT[tape.draw(len(UT), "uv2")]
                            form = tape.draw(5, "uform")
                            if form == 4:
                                cb(u, "`<builtin>elementwise_abs`(%s)" % u2)
                            elif form == 0:
                                cb(u, "<func>f(<t>, %s)" % u2)
                            elif form == 1:
                                cb(u, "%s + %s*%s" % (u2, s, UT[tape.draw(len(UT), "uv3")]))
                            elif form == 2:
                                cb(u, u2)
                            else:
                                cb(u, "%s + %s" % (u2, u))
                        elif k == 5:
                            u = UT[tape.draw(len(UT), "uv")]
                            cb(s, "`<builtin>norm_2`(%s)" % u)
                        elif k == 6:
                            a = ARR[tape.draw(len(ARR), "av")]
                            a2 = ARR[tape.draw(len(ARR), "av2")]
                            sform = tape.draw(5, "sform")
                            if sform == 3:
                                # (a name that nothing else assigns: its kind is the function's answer alone)
                                cb(["dp1", "dp2"][tape.draw(2, "dpname")], "`<builtin>dot_product`(%s, %s)" % (a, a2))
                            else:
                                cb(s, ["%s[1]" % a, "%s[i] + %s" % (a, s2), "`<builtin>len`(%s)" % a, None,
                                       "`<builtin>elementwise_abs`(%s)" % s2][sform])
                        else:
                            # a loop counter that is also an ordinary variable
                            cb(s, "i + 1", loops=[("i", 0, 2)])
                            cb("i", ["2.5", "j"][tape.draw(2)])
                # typing anchors: most (not all) variables that occur get one plain assignment,
                # otherwise nearly every program would just fail to infer kinds
                used = set()
                for st in cb.statements:
                    used |= set(st.get_read_variables()) | set(st.get_written_variables())
                for v in sorted(used):
                    if not tape.chance(0.92, "anchor"):
                        continue
                    if v in SCAL and v not in ("i", "j"):
                        cb(v, ["1", 1j, "2.5"][tape.weighted([3, 1, 2], "aconst")])
                    elif v in ARR:
                        cb(v, "`<builtin>array`(3)")
                    elif v in UT and v != "<state>y":
                        cb(v, "<func>f(<t>, <state>y)")
                    elif v in BOOL:
                        cb(v, "<t> < 1")
            phases.append(list(cb.statements))
    return names, phases, freg


KIND_UNIVERSE = ["Boolean", "Integer", "Scalar_r", "Scalar_c", "Array_r", "Array_c", "UT_a", "UT_b"]


def make_kind(name):
    from dagrt.data import Array, Boolean, Integer, Scalar, UserType
    # user-type identifiers are fresh string objects every time (equal, not identical: ids that were parsed,
    # formatted or read from a file are never the interned literal)
    return {"Boolean": Boolean(), "Integer": Integer(), "Scalar_r": Scalar(True), "Scalar_c": Scalar(False),
            "Array_r": Array(True), "Array_c": Array(False), "UT_a": UserType("".join(["type", "_a"])),
            "UT_b": UserType("".join(["type", "_b"])), "None": None}[name]
