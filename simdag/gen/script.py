"""Builder-script generator: a script is a tree of calls against the public
CodeBuilder API for 1..3 phases, generated with definite-assignment and type
tracking so that the written program is well defined (DESIGN.md §3.4)."""
import numpy as np

from simdag.gen.expr import (Attr, Bin, Call, Lst, Cmp, Const, IfX, Logic, Not, Pow, Sub, Var,
                             expr_vars, has_call, render, text)

TEMP_POOL = ["x", "y", "z", "w", "u", "v", "temp", "temp_0", "temp_1", "local_x",
             "cond", "self", "numpy", "t", "dt", "global_state_y", "y0", "X", "localx", "real", "imag", "d",
             # names that only exist as objects (not parseable): punctuation twins, sanitising collisions
             "y^", "y*", "y_", "a.b", "a_b", "x-1", "cond_"]
ARR_POOL = ["a", "b", "c", "arr", "vec"]
COUNTERS = ["i", "j", "k"]
BND_POOL = ["n", "m", "nn"]
STATE_NUM = ["<state>y", "<state>z", "<state>Y"]
STATE_INT = ["<state>n", "<state>cnt"]
STATE_ARR = ["<state>a", "<state>b"]
P_NUM = ["<p>y", "<p>s", "<p>acc"]
P_INT = ["<p>n", "<p>k"]
PHASE_NAMES = ["main", "init", "p2", "primary", "Main"]
FRESH_PREFIXES = ["temp", "x", "y0", "local_x", "f", "temp_0"]
INT_CONSTS = [2, 3, -1, 4, -2, 5, 7, 0, 1]
FLT_CONSTS = [0.5, 1.5, 2.0, -0.5, 0.25, 3.0, -1.5, 0.125, 10.0]
COMPONENTS = ["y", "z", "a", "<state>y", "comp"]
TIME_IDS = ["final", "t1", "mid"]
CMP_OPS = ["<", ">", "<=", ">=", "==", "!="]

# user function library: name -> (arity signature, python callable factory)
FUNCS = {
    "<func>f": ("num->num", lambda x: 2 * x + 1),
    "<func>g": ("num,num->num", lambda x, y: x - 2 * y),
    "<func>F": ("num->num", lambda x: x / 2),
    "<func>f_": ("num->num", lambda x: -x),
    "<func>kw": ("num,y=,z=->num", lambda x, y=3, z=-1: x + 2 * y + 4 * z),
    "<func>pair": ("num->num,num", lambda x: (x + 1, x - 1)),
    "<func>noop": ("num->", lambda x: None),
    "<func>pairlist": ("num->num,num", lambda x: [x + 1, x - 1]),      # two results as a list, not a tuple
    "<func>tup": ("num->tup", lambda x: (x + 1, x - 1)),               # one result that is itself a tuple
    "<func>lsum": ("list,w=->num", lambda xs, w=(1, 1): w[0] * xs[0] - 2 * w[1] * xs[1]),   # container arguments
    "<func>h": ("arr->arr", lambda a: 2 * np.asarray(a)),
    "<func>rev": ("arr->arr", lambda a: np.asarray(a)[::-1].copy()),
    "<func>total": ("arr->num", lambda a: float(np.asarray(a).sum())),
    "<func>isbig": ("num->bool", lambda x: bool(x > 2)),
    "<func>nloop": ("num->int", lambda x: 2),
}


# plain function names that coincide with names in TEMP_POOL
PLAIN_ALIAS = {"<func>f": "u", "<func>g": "v", "<func>F": "w", "<func>f_": "x", "<func>kw": "y"}


class Features:
    NAMES = ["loops", "var_bounds", "zero_trip", "nested_if", "else_", "if3", "strings",
             "fresh", "calls", "kwargs", "multi_assign", "arrays", "ifexpr", "phases",
             "fail", "switch", "restart", "raise_", "adv_names", "np_consts", "builtins",
             "dead_code", "guarded_loops", "call_stmt", "logic", "attrs"]

    def __init__(self, tape, p=0.6):
        with tape.span("features"):
            for n in self.NAMES:
                setattr(self, n, tape.chance(p, "feat:" + n))


class PhaseS:
    def __init__(self, name, next_phase, ops):
        self.name, self.next_phase, self.ops = name, next_phase, ops


class Script:
    def __init__(self):
        self.phases = []
        self.initial = None
        self.state0 = {}
        self.t0 = 0
        self.dt0 = 1
        self.funcs = []
        self.func_alias = {}
        self.types = {}
        self.shape_sig = []

    def func_impl(self, fn):
        return FUNCS[self.func_alias.get(fn, fn)][1]

    def phase(self, name):
        for p in self.phases:
            if p.name == name:
                return p
        raise KeyError(name)

    def text(self, nm=None):
        nm = nm or (lambda n: n)
        out = []
        for ph in self.phases:
            out.append("phase %s -> %s%s" % (ph.name, ph.next_phase,
                                            " (initial)" if ph.name == self.initial else ""))
            _ops_text(ph.ops, nm, out, 1)
        out.append("set_up(t=%r, dt=%r, state=%s)" % (
            self.t0, self.dt0, {k: (v.tolist() if hasattr(v, "tolist") else v)
                                for k, v in sorted(self.state0.items())}))
        return out


def _ops_text(ops, nm, out, ind):
    pad = "  " * ind
    for op in ops:
        k = op[0]
        if k == "assign":
            _, tgt, sub, e, loops, mode = op
            lhs = nm(tgt) + ("[%s]" % text(sub, nm) if sub is not None else "")
            lp = "".join(" [%s=%s..%s]" % (nm(c), text(lo, nm), text(hi, nm)) for c, lo, hi in loops)
            out.append("%sassign(%s <- %s)%s  {%s}" % (pad, lhs, text(e, nm), lp, mode))
        elif k == "call":
            _, asg, e, mode = op
            out.append("%sassign((%s) <- %s)  {%s}" % (pad, ", ".join(nm(a) for a in asg),
                                                     text(e, nm), mode))
        elif k == "if":
            _, form, then, else_ = op
            if form[0] == "1":
                out.append("%sif_(%s)  {%s}:" % (pad, text(form[1], nm), form[2]))
            else:
                out.append("%sif_(%s, %r, %s)  {%s%s}:" % (pad, text(form[1], nm), form[2],
                                                          text(form[3], nm), form[4], form[5]))
            _ops_text(then, nm, out, ind + 1)
            if else_ is not None:
                out.append("%selse_:" % pad)
                _ops_text(else_, nm, out, ind + 1)
        elif k == "yield":
            _, e, comp, te, tid, mode = op
            out.append("%syield_state(%s, %r, time=%s, %r)  {%s}" % (pad, text(e, nm), comp,
                                                                    text(te, nm), tid, mode))
        elif k == "fresh":
            out.append("%s%s = fresh_var_name(%r) -> %s" % (pad, op[1], op[2], nm(op[1])))
        elif k == "implicit":
            out.append("%sassign_implicit_1(%s, unknown %s, %s = 0, guess=%s)" % (
                pad, nm(op[1]), nm(op[2]), text(op[3], nm), text(op[4], nm)))
        elif k == "raise":
            out.append("%sraise_(%s, %r)" % (pad, op[1], op[2]))
        elif k == "switch":
            out.append("%sswitch_phase(%r)" % (pad, op[1]))
        else:
            out.append("%s%s()" % (pad, {"fail": "fail_step", "restart": "restart_step"}[k]))


class ErrA(Exception):
    pass


class ErrB(Exception):
    pass


ERRORS = {"ErrA": ErrA, "ErrB": ErrB, "ValueError": ValueError}


class ScriptGen:
    def __init__(self, tape, max_ops=8, max_phases=3, max_depth=2, persistent_p=True,
                 unique_sites=False, force=(), forbid=(), cfg=None, implicit=False):
        self.tape = tape
        self.implicit = implicit      # implicit solves (no stock back end runs them: schedule checks only)
        self.F = Features(tape)
        for name in force:
            setattr(self.F, name, True)
        for name in forbid:
            setattr(self.F, name, False)
        self.cfg = cfg or {}
        self.unique_sites = unique_sites
        with tape.span("plain_func_names"):
            self.plain_func_names = bool(self.F.adv_names and tape.chance(0.5, "plain_func_names"))
        self.func_alias = {}
        self.site_n = 0
        self.max_ops = max_ops
        self.max_phases = max_phases
        self.max_depth = max_depth
        self.types = {}
        self.bnd_val = {}
        self.fresh_n = 0
        self.used_funcs = set()
        self.persistent_p = persistent_p
        self.arr_len = {}
        self.shape = []

    # ---------- helpers
    def ucall(self, fn, args, kwargs=()):
        """user-function call; with unique_sites every call site gets its own name."""
        if self.unique_sites:
            name = "%s_s%03d" % (fn, self.site_n)
            self.site_n += 1
            self.func_alias[name] = fn
            fn = name
        elif self.plain_func_names and fn in PLAIN_ALIAS:
            # a function registered under a plain name that the program also uses for a variable
            name = PLAIN_ALIAS[fn]
            self.func_alias[name] = fn
            fn = name
        self.used_funcs.add(fn)
        return Call(fn, args, kwargs)

    def pick(self, seq, label=""):
        return seq[self.tape.draw(len(seq), label)]

    def vars_of(self, D, pred):
        return sorted(n for n in D if n in self.types and pred(self.types[n]))

    def nums(self, D):
        return self.vars_of(D, lambda t: t in ("int", "float", "bnd"))

    def ints(self, D):
        return self.vars_of(D, lambda t: t in ("int", "bnd"))

    def bools(self, D):
        return self.vars_of(D, lambda t: t == "bool")

    def arrs(self, D, n=None):
        return self.vars_of(D, lambda t: isinstance(t, tuple) and (n is None or t[1] == n))

    def const_num(self, arith=False, int_only=False):
        t = self.tape
        if int_only or t.chance(0.6, "constint"):
            pool = INT_CONSTS[:7] if arith else INT_CONSTS
            c = Const(self.pick(pool, "ci"))
            if self.F.np_consts and t.chance(0.15, "npc"):
                c.np_kind = "int64"
            return c
        c = Const(self.pick(FLT_CONSTS, "cf"))
        if self.F.np_consts and t.chance(0.15, "npc"):
            c.np_kind = "float64"
        return c

    # ---------- expressions
    def g_int(self, D, depth, counters=()):
        """small-int valued expression (subscripts are handled separately)."""
        t = self.tape
        vs = self.ints(D)
        opts = [3, 2 if vs else 0, 2 if depth > 0 else 0, 1 if counters else 0]
        k = t.weighted(opts, "int")
        if k == 0:
            return self.const_num(int_only=True)
        if k == 1:
            return Var(self.pick(vs, "iv"))
        if k == 3:
            return Var(self.pick(list(counters), "cv"))
        op = self.pick(["+", "-", "*"], "iop")
        return Bin(op, self.g_int(D, depth - 1, counters), self._arith_operand_int(D, depth - 1, counters))

    def _arith_operand_int(self, D, depth, counters):
        e = self.g_int(D, depth, counters)
        if isinstance(e, Const) and e.v in (0, 1):
            e = Const(2)
        return e

    def g_num(self, D, depth, counters=(), allow_calls=True):
        t = self.tape
        F = self.F
        vs = self.nums(D)
        arrs = self.arrs(D)
        w = [3,                                   # 0 const
             4 if vs else 0,                      # 1 var
             4 if depth > 0 else 0,               # 2 binop
             1 if depth > 0 else 0,               # 3 pow
             1.5 if depth > 0 and F.ifexpr else 0,  # 4 ifexpr
             1.5 if arrs and F.arrays else 0,     # 5 subscript
             2 if depth > 0 and F.calls and allow_calls else 0,   # 6 user call
             1 if arrs and F.builtins and depth > 0 else 0,       # 7 builtin on array
             1 if counters else 0,                # 8 counter
             0.7 if depth > 0 else 0,             # 9 dyadic quotient
             (3.0 if ("real" in D or "imag" in D) else 1.0) if vs and F.attrs else 0]   # 10 attribute lookup
        k = t.weighted(w, "num")
        if k == 10:
            return Attr(self.pick(vs, "attrv"), ["real", "real", "imag"][t.draw(3, "attr")])
        if k == 0:
            return self.const_num()
        if k == 1:
            return Var(self.pick(vs, "nv"))
        if k == 2:
            op = ["+", "-", "*", "+", "-"][t.draw(5, "op")]
            a = self.g_num(D, depth - 1, counters, allow_calls)
            b = self.g_num(D, depth - 1, counters, allow_calls)
            a, b = self._no01(a), self._no01(b)
            return Bin(op, a, b)
        if k == 3:
            return Pow(self._no01(self.g_num(D, depth - 1, counters, allow_calls)), 2 + t.draw(2, "pw"))
        if k == 4:
            return IfX(self.g_bool(D, depth - 1, counters, allow_calls),
                       self.g_num(D, depth - 1, counters, allow_calls),
                       self.g_num(D, depth - 1, counters, allow_calls))
        if k == 5:
            return self.g_elem(D, counters)
        if k == 6:
            return self.g_usercall_num(D, depth - 1, counters)
        if k == 7:
            a = self.pick(arrs, "ba")
            two = self.arrs(D, 2)
            if two and t.chance(0.35, "matmul"):
                x, y = Var(self.pick(two, "mma")), Var(self.pick(two, "mmb"))
                ac, bc = [(2, 1), (1, 2)][t.draw(2, "mmshape")]
                form = t.draw(4, "mmform") if F.kwargs else 0
                if form == 0:
                    mm = Call("<builtin>matmul", [x, y, Const(ac), Const(bc)])
                elif form == 1:
                    mm = Call("<builtin>matmul", [x, y], [("a_cols", Const(ac)), ("b_cols", Const(bc))])
                elif form == 2:
                    mm = Call("<builtin>matmul", [x, y], [("b_cols", Const(bc)), ("a_cols", Const(ac))])
                else:
                    mm = Call("<builtin>matmul", [x], [("b_cols", Const(bc)), ("b", y), ("a_cols", Const(ac))])
                return Call("<builtin>norm_1", [mm])
            if t.chance(0.2, "dot"):
                n = self.types[a][1]
                b = self.pick(self.arrs(D, n), "dotb")
                if F.kwargs and t.chance(0.4, "dotkw"):
                    return Call("<builtin>dot_product", [], [("y", Var(b)), ("x", Var(a))])
                return Call("<builtin>dot_product", [Var(a), Var(b)])
            fn = self.pick(["<builtin>len", "<builtin>norm_inf", "<builtin>norm_1", "<builtin>norm_2"], "bfn")
            if F.kwargs and t.chance(0.3, "bkw"):
                return Call(fn, [], [("x", Var(a))])
            return Call(fn, [Var(a)])
        if k == 8:
            return Var(self.pick(list(counters), "cv"))
        den = Const(self.pick([2, 4, 8, 0.5], "den"))
        return Bin("/", self._no01(self.g_num(D, depth - 1, counters, allow_calls)), den)

    def _no01(self, e):
        if isinstance(e, Const) and e.v in (0, 1) and not isinstance(e.v, bool):
            return Const(e.v + 2, e.np_kind)
        return e

    def g_elem(self, D, counters):
        self._D = D
        return self._g_elem(D, counters)

    def _g_elem(self, D, counters):
        """a[idx] with idx provably in range: constant, or loop counter (+const)
        when the loop range guarantees it (counter ranges are recorded)."""
        arrs = self.arrs(D)
        a = self.pick(arrs, "ea")
        n = self.types[a][1]
        usable = [c for c in counters if self.counter_range.get(c, (0, 0))[1] <= n
                  and self.counter_range[c][0] >= 0]
        if usable and self.tape.chance(0.7, "ectr"):
            c = self.pick(usable, "ec")
            lo, hi = self.counter_range[c]
            # optional offset keeping i+off within [0,n)
            offs = [o for o in (0, 1, -1) if lo + o >= 0 and hi + o <= n]
            off = self.pick(offs, "eo")
            if off == 0:
                return Sub(a, Var(c))
            return Sub(a, Bin("+", Var(c), Const(off)))
        bvs = [b for b in self.vars_of(self._D, lambda ty: ty == "bnd") if 0 <= self.bnd_val.get(b, -1) < n] \
            if getattr(self, "_D", None) is not None else []
        if bvs and self.tape.chance(0.3, "eidxvar"):
            return Sub(a, Var(self.pick(bvs, "eidxv")))
        return Sub(a, Const(self.tape.draw(n, "eidx")))

    def g_usercall_num(self, D, depth, counters):
        t = self.tape
        F = self.F
        opts = ["<func>f", "<func>g", "<func>F", "<func>f_"]
        if F.kwargs:
            opts.append("<func>kw")
        if self.arrs(D) and F.arrays:
            opts.append("<func>total")
        fn = self.pick(opts, "ufn")
        if fn == "<func>total":
            return self.ucall(fn, [Var(self.pick(self.arrs(D), "ta"))])
        a = self.g_num(D, depth, counters)
        if fn == "<func>g":
            return self.ucall(fn, [a, self.g_num(D, depth, counters)])
        if fn == "<func>kw":
            kws = []
            if t.chance(0.6, "kwy"):
                kws.append(("y", self.g_num(D, 0, counters)))
            if t.chance(0.5, "kwz"):
                kws.append(("z", self.g_num(D, 0, counters)))
            if t.chance(0.3, "kwswap"):
                kws.reverse()
            return self.ucall(fn, [a], kws)
        return self.ucall(fn, [a])

    def g_bool(self, D, depth, counters=(), allow_calls=True):
        t = self.tape
        F = self.F
        bs = self.bools(D)
        w = [5, 1.5 if bs else 0, 2 if depth > 0 and F.logic else 0, 1 if depth > 0 and F.logic else 0,
             0.6, 0.5 if F.calls and allow_calls and depth > 0 else 0,
             0.5 if F.builtins else 0]
        k = t.weighted(w, "bool")
        if k == 0:
            a = self.g_num(D, max(depth - 1, 0), counters, allow_calls)
            if F.np_consts and t.chance(0.12, "infc"):
                b = Const([float("inf"), float("-inf")][t.draw(2, "infsign")])
            else:
                b = self.g_num(D, max(depth - 1, 0), counters, allow_calls)
            return Cmp(self.pick(CMP_OPS, "cmp"), a, b)
        if k == 1:
            return Var(self.pick(bs, "bv"))
        if k == 2:
            n = 2 + t.draw(2, "nlog")
            return Logic(self.pick(["and", "or"], "lop"),
                         [self.g_bool(D, depth - 1, counters, allow_calls) for _ in range(n)])
        if k == 3:
            return Not(self.g_bool(D, depth - 1, counters, allow_calls))
        if k == 4:
            if depth > 0 and F.logic and t.chance(0.5, "boolcmp"):
                # comparing two truth values: (a < b) == False, (a < b) != (c > d)
                other = Const(bool(t.draw(2, "bc2"))) if t.chance(0.5, "bcconst") else \
                    self.g_bool(D, depth - 1, counters, allow_calls)
                return Cmp(self.pick(["==", "!="], "bcop"), self.g_bool(D, depth - 1, counters, allow_calls), other)
            return Const(bool(t.draw(2, "bc")))
        if k == 5:
            return self.ucall("<func>isbig", [self.g_num(D, depth - 1, counters)])
        return Call("<builtin>isnan", [self.g_num(D, 0, counters, allow_calls)])

    def g_arr(self, D, n, depth):
        t = self.tape
        F = self.F
        vs = self.arrs(D, n)
        w = [0, 0, 3 if depth > 0 else 0, 2 if depth > 0 else 0,
             1.5 if F.calls and depth > 0 else 0, 1 if F.builtins and depth > 0 else 0,
             1 if F.ifexpr and depth > 0 else 0]
        k = t.weighted(w, "arr")
        if k == 2:
            a, b = Var(self.pick(vs, "av")), self._arr_leaf_or(D, n, depth - 1)
            return Bin(self.pick(["+", "-"], "aop"), a, b)
        if k == 3:
            c = self._no01(self.g_num(D, 0))
            return Bin("*", c, self._arr_leaf_or(D, n, depth - 1))
        if k == 4:
            fn = self.pick(["<func>h", "<func>rev"], "afn")
            return self.ucall(fn, [self._arr_leaf_or(D, n, depth - 1)])
        if k == 5:
            if n in (2, 4) and t.chance(0.4, "transpose"):
                cols = Const(self.pick([1, 2] if n == 2 else [1, 2, 4], "tcols"))
                x = self._arr_leaf_or(D, n, depth - 1)
                # (numpy's transpose/reshape may return a *view* of its argument: multiply so that the
                # result is fresh storage -- aliasing is outside the well-defined domain, DESIGN §3.4)
                if F.kwargs and t.chance(0.5, "tkw"):
                    return Bin("*", Const(2), Call("<builtin>transpose", [x], [("a_cols", cols)]))
                return Bin("*", Const(2), Call("<builtin>transpose", [x, cols]))
            return Call("<builtin>elementwise_abs", [self._arr_leaf_or(D, n, depth - 1)])
        if k == 6:
            return IfX(self.g_bool(D, 0),
                       Bin("+", Var(self.pick(vs, "av")), Var(self.pick(vs, "av"))),
                       Bin("*", Const(2), Var(self.pick(vs, "av"))))
        return Bin("+", Var(self.pick(vs, "av")), Var(self.pick(vs, "av")))

    def _arr_leaf_or(self, D, n, depth):
        vs = self.arrs(D, n)
        if depth > 0 and self.tape.chance(0.4, "arec"):
            return self.g_arr(D, n, depth)
        return Var(self.pick(vs, "av"))

    # ---------- statements
    def mode(self):
        if not self.F.strings:
            return "o"
        return "s" if self.tape.chance(0.6, "mode") else "o"

    def new_temp(self, D, typ, pool=None, allow_existing=True):
        """name for an assignment target of the given type."""
        t = self.tape
        pool = pool or ((TEMP_POOL if self.F.adv_names else TEMP_POOL[:6]) + list(self.cfg.get("extra_temps", [])))
        same = [n for n in self.types if self.types[n] == typ and n in self.assignable
                and not n.startswith("$") and n not in ("<t>", "<dt>")]
        fresh = [n for n in self.fresh_handles if self.types.get(n, typ) == typ]
        if fresh and t.chance(0.5, "usefresh"):
            n = self.pick(fresh, "fh")
            self.types[n] = typ
            return n
        if self.fresh_handles:
            import re
            pat = re.compile(r"^(%s)(_\d+)?$" % "|".join(re.escape(p) for p in FRESH_PREFIXES))
            same = [n for n in same if not pat.match(n) or n in self.safe_after_fresh]
        if same and allow_existing and t.chance(0.5, "reuse"):
            n = self.pick(sorted(same), "tv")
            self.used_in_phase.add(n)
            return n
        cands = [n for n in pool if n not in self.types]
        if self.fresh_handles:
            # after fresh_var_name has been called in this phase, a *new* user variable must not be
            # spelled like a name the builder may already have handed out (prefix or prefix_N): the
            # builder cannot know about variables that are introduced later
            import re
            pat = re.compile(r"^(%s)(_\d+)?$" % "|".join(re.escape(p) for p in FRESH_PREFIXES))
            cands = [n for n in cands if not pat.match(n)]
        if not cands:
            if same:
                return self.pick(sorted(same), "tv")
            return None
        n = self.pick(cands, "newv")
        self.types[n] = typ
        self.assignable.add(n)
        self.used_in_phase.add(n)
        return n

    def gen_loops(self, D, arr_n=None):
        """returns (loops, counters) with counter ranges recorded."""
        t = self.tape
        F = self.F
        nl = 1 + (1 if t.chance(0.25, "nest2") else 0)
        if nl == 2 and t.chance(0.25, "nest3"):
            nl = 3
        loops, ctrs = [], []
        for li in range(nl):
            c = COUNTERS[li] if not t.chance(0.2, "ctrname") else COUNTERS[(li + 1) % 3]
            if c in ctrs:
                c = [x for x in COUNTERS if x not in ctrs][0]
            hi_max = arr_n if (arr_n is not None and li == 0) else 3
            if F.zero_trip and t.chance(0.2, "zerotrip"):
                lo_v, hi_v = self.pick([(2, 2), (3, 1), (0, 0)], "zt")
            else:
                lo_v = 0 if t.chance(0.7, "lo0") else t.draw(max(hi_max, 1), "lo")
                hi_v = hi_max if t.chance(0.6, "hifull") else lo_v + t.draw(max(hi_max - lo_v, 0) + 1, "hi")
            lo_e, hi_e = Const(lo_v), Const(hi_v)
            if F.var_bounds:
                bv = [n for n in self.vars_of(D, lambda ty: ty == "bnd") if n in self.bnd_val]
                for n in bv:
                    if self.bnd_val[n] == hi_v and t.chance(0.7, "hivar"):
                        hi_e = Var(n)
                        break
                for n in bv:
                    if self.bnd_val[n] == lo_v and t.chance(0.3, "lovar"):
                        lo_e = Var(n)
                        break
            if F.calls and hi_v == 2 and isinstance(hi_e, Const) and t.chance(0.35, "hicall"):
                # the upper bound is computed by a user function (which may fail)
                hi_e = self.ucall("<func>nloop", [self.g_num(D, 0)])
            if F.var_bounds:
                if isinstance(hi_e, Const) and arr_n is not None and hi_v == arr_n and F.builtins \
                        and t.chance(0.2, "hilen") and self.arrs(D, arr_n):
                    hi_e = Call("<builtin>len", [Var(self.pick(self.arrs(D, arr_n), "la"))])
            self.counter_range[c] = (lo_v, max(hi_v, lo_v))
            if li >= 1 and t.chance(0.3, "triangular"):
                # a triangular nest: the inner bound mentions the outer loop variable (bounds are evaluated when
                # the loop is entered, inside the outer iteration)
                outer = ctrs[-1]
                lo_e, hi_e = Const(0), Bin("+", Var(outer), Const(1))
                self.counter_range[c] = (0, self.counter_range[outer][1])
            loops.append((c, lo_e, hi_e))
            ctrs.append(c)
        return loops, tuple(ctrs)

    def gen_block(self, D, depth, n_ops, top=False):
        ops = []
        t = self.tape
        F = self.F
        for _ in range(n_ops):
            with t.span("op"):
                w = [6,                                    # 0 scalar assign
                     2 if F.arrays else 0,                 # 1 array create+init
                     1.5 if F.arrays and self.arrs(D) else 0,   # 2 element / loop assign
                     2 if F.loops and self.arrs(D) else 0,      # 3 accumulate loop
                     2 if F.call_stmt and F.calls else 0,  # 4 call statement
                     3 if depth > 0 else 0,                # 5 if
                     2,                                    # 6 yield
                     0.8 if F.fresh else 0,                # 7 fresh var
                     1.2 if (F.fail or F.switch or F.restart or F.raise_) else 0,  # 8 terminator
                     1.5 if F.arrays and self.arrs(D) else 0,   # 9 whole-array assign
                     1 if F.var_bounds else 0,             # 10 bound var
                     1.0,                                  # 11 persistent update
                     1.5 if self.implicit else 0]          # 12 implicit solve
                k = t.weighted(w, "opkind")
                op = self.gen_op(k, D, depth)
                if op is None:
                    op = self.gen_op(0, D, depth)
                if op is None:
                    continue
                if isinstance(op, list):
                    ops.extend(op)
                else:
                    ops.append(op)
                self.shape.append(k)
        return ops

    def persistent_targets(self, typ):
        out = []
        for n, ty in self.types.items():
            if (n.startswith("<state>") or n.startswith("<p>")) and ty == typ and n in self.assignable:
                out.append(n)
        return sorted(out)

    def gen_op(self, k, D, depth):
        t = self.tape
        F = self.F
        if k == 12:
            # tgt <- solution for the unknown u of expr(u, ...) = 0, starting from guess; the unknown is a
            # name of its own that may be spelled like a program variable (then the guess often mentions
            # that variable, which the solve does read)
            tgt = self.new_temp(D, "float")
            if tgt is None:
                return None
            nums = [v for v in self.nums(D) if not v.startswith("$")]
            if nums and t.chance(0.7, "unknown_like_var"):
                unk = self.pick(nums, "unk")
            else:
                unk = "unk"
            D2 = set(D) | {unk}
            old = self.types.get(unk)
            self.types.setdefault(unk, "float")
            e = Bin("-", Bin("*", Var(unk), self.g_num(D2, 1, allow_calls=False)), self.g_num(D, 1, allow_calls=False))
            if old is None:
                del self.types[unk]
            if unk in D and t.chance(0.7, "guess_is_var"):
                guess = Var(unk)
            else:
                guess = self.g_num(D, 1, allow_calls=False)
            D.add(tgt)
            return ("implicit", tgt, unk, e, guess)
        if k == 0 or k == 11:
            typ = ["float", "int", "bool"][t.weighted([5, 2, 1.5], "atyp")]
            if k == 11:
                typ = "float" if t.chance(0.7) else "int"
                pts = self.persistent_targets(typ)
                if not pts:
                    return None
                tgt = self.pick(pts, "pt")
            else:
                pts = self.persistent_targets(typ)
                if pts and t.chance(0.25, "topers"):
                    tgt = self.pick(pts, "pt")
                else:
                    tgt = self.new_temp(D, typ)
                    if tgt is None:
                        return None
            if typ == "bool":
                e = self.g_bool(D, self.max_depth)
            elif typ == "int":
                e = self.g_int(D, 1)
            else:
                e = self.g_num(D, self.max_depth)
            if isinstance(e, Call):
                # a bare call as the whole rhs becomes an AssignFunctionCall
                D.add(tgt)
                return ("call", (tgt,), e, self.mode())
            D.add(tgt)
            return ("assign", tgt, None, e, [], self.mode())
        if k == 1:
            n = 2 + t.draw(3, "alen")
            pts = self.persistent_targets(("arr", n))
            if pts and t.chance(0.3, "arrpers"):
                # re-initialise a persistent array in place by a loop
                a = self.pick(pts, "pa")
                self.counter_range["i"] = (0, n)
                e = self.g_num(D, 1, counters=("i",))
                return ("assign", a, Var("i"), e, [("i", Const(0), Const(n))], self.mode())
            a = self.new_temp(D, ("arr", n), pool=ARR_POOL, allow_existing=False)
            if a is None:
                return None
            create = ("call", (a,), Call("<builtin>array", [Const(n)]), self.mode())
            self.counter_range["i"] = (0, n)
            D.discard(a)      # freshly created storage is uninitialised: not readable yet
            init_e = self.g_num(D, 1, counters=("i",))
            init = ("assign", a, Var("i"), init_e, [("i", Const(0), Const(n))], self.mode())
            D.add(a)
            if t.chance(0.3, "mirror"):
                # a second array filled right afterwards by a loop over the same range that reads the first one
                # at other indices (mirrored, or its fixed last element): the two loops are no one loop
                b2 = self.new_temp(D, ("arr", n), pool=ARR_POOL, allow_existing=False)
                if b2 is not None:
                    src = [Sub(a, Bin("-", Const(n - 1), Var("i"))), Sub(a, Const(n - 1)),
                           Bin("+", Sub(a, Bin("-", Const(n - 1), Var("i"))), Sub(a, Const(0)))][t.draw(3, "mirrorform")]
                    create2 = ("call", (b2,), Call("<builtin>array", [Const(n)]), self.mode())
                    fill2 = ("assign", b2, Var("i"), src, [("i", Const(0), Const(n))], "o")
                    D.add(b2)
                    te = [Var("<t>"), Bin("+", Var("<t>"), Var("<dt>"))][t.draw(2, "mirt")]
                    return [create, init, create2, fill2,
                            ("yield", Var(b2), self.pick(COMPONENTS, "comp"), te, self.pick(TIME_IDS, "tid"), self.mode())]
            return [create, init]
        if k == 2:
            a = self.pick(self.arrs(D), "sa")
            if a not in self.assignable:
                return None
            n = self.types[a][1]
            if F.loops and t.chance(0.6, "loopassign"):
                loops, ctrs = self.gen_loops(D, arr_n=n)
                c0 = ctrs[0]
                lo, hi = self.counter_range[c0]
                if hi > n or lo < 0:
                    return None
                e = self.g_num(D, 1, counters=ctrs)
                return ("assign", a, Var(c0), e, loops, self.mode())
            idx = Const(t.draw(n, "sidx"))
            bvs = [b for b in self.vars_of(D, lambda ty: ty == "bnd") if 0 <= self.bnd_val.get(b, -1) < n]
            if bvs and t.chance(0.6, "sidxvar"):
                idx = Var(self.pick(bvs, "sidxv"))
                if self.bnd_val[idx.name] + 1 < n and t.chance(0.3, "sidxplus"):
                    idx = Bin("+", idx, Const(1))
            e = self.g_num(D, self.max_depth)
            if isinstance(e, Call):
                # the builder accepts a bare call only with plain-variable assignees
                e = Bin("+", e, Const(2))
            return ("assign", a, idx, e, [], self.mode())
        if k == 3:
            # accumulate into a scalar over a loop: s <- s + a[i]
            a = self.pick(self.arrs(D), "la")
            n = self.types[a][1]
            cands = [v for v in self.nums(D) if self.types[v] == "float" and v in self.assignable]
            if not cands:
                return None
            s = self.pick(cands, "acc")
            loops, ctrs = self.gen_loops(D, arr_n=n)
            # the added term must not mention s itself (s <- s + s*s in a loop nest grows doubly
            # exponentially and the real interpreter never finishes)
            body = Bin("+", Var(s), self.g_num(D - {s}, 1, counters=ctrs))
            return ("assign", s, None, body, loops, self.mode())
        if k == 4:
            kind = t.weighted([2, 2 if F.multi_assign else 0, 1, 1 if F.builtins and self.arrs(D) else 0,
                               0.7 if F.multi_assign else 0, 0.7 if F.kwargs else 0], "callkind")
            if kind == 5:
                # a list (and a tuple, by keyword) of expressions as arguments of a call statement
                tgt = self.new_temp(D, "float")
                if tgt is None:
                    return None
                a, b_ = self.g_num(D, 0), self.g_num(D, 0)
                kws = [("w", Lst([self.g_num(D, 0), self.g_num(D, 0)], as_tuple=True))] if t.chance(0.5, "lkw") else []
                D.add(tgt)
                # (tuples: pymbolic deprecates lists inside expression graphs)
                return ("call", (tgt,), self.ucall("<func>lsum", [Lst([a, b_], as_tuple=True)], kws), "o")
            if kind == 4:
                # one variable bound to a result that is itself a tuple, handed on as it is
                tv = self.new_temp(D, "tup", pool=["pr", "tup", "res"], allow_existing=False)
                if tv is None:
                    return None
                e = self.ucall("<func>tup", [self.g_num(D, 1)])
                D.add(tv)
                te = [Var("<t>"), Bin("+", Var("<t>"), Var("<dt>"))][t.draw(2, "tupt")]
                return [("call", (tv,), e, self.mode()),
                        ("yield", Var(tv), self.pick(COMPONENTS, "comp"), te, self.pick(TIME_IDS, "tid"), self.mode())]
            if kind == 0:
                e = self.g_usercall_num(D, 1, ())
                tgt = self.new_temp(D, "float")
                if tgt is None:
                    return None
                D.add(tgt)
                return ("call", (tgt,), e, self.mode())
            if kind == 1:
                a = self.new_temp(D, "float")
                b = self.new_temp(D, "float")
                if a is None or b is None or a == b:
                    return None
                e = self.ucall(["<func>pair", "<func>pair", "<func>pairlist"][t.draw(3, "pairfn")], [self.g_num(D, 1)])
                D.add(a)
                D.add(b)
                return ("call", (a, b), e, self.mode())
            if kind == 2:
                return ("call", (), self.ucall("<func>noop", [self.g_num(D, 1)]), self.mode())
            tgt = self.new_temp(D, "float")
            if tgt is None:
                return None
            a = self.pick(self.arrs(D), "ba")
            D.add(tgt)
            fn = self.pick(["<builtin>norm_inf", "<builtin>len", "<builtin>norm_1"], "bfn")
            return ("call", (tgt,), Call(fn, [Var(a)]), self.mode())
        if k == 5:
            c = self.g_bool(D, 1)
            if F.if3 and isinstance(c, Cmp) and t.chance(0.5, "if3"):
                form = ("3", c.a, c.op, c.b, self.mode(), self.mode())
            else:
                form = ("1", c, self.mode())
            D_then = set(D)
            n_then = 1 + t.draw(3, "nthen")
            then = self.gen_block(D_then, depth - 1 if F.nested_if else 0, n_then)
            if isinstance(c, Var) and form[0] == "1" and c.name in self.assignable and t.chance(0.6, "flipflag"):
                # "only the first time" idiom: the block clears the very variable it is guarded by; the
                # condition must have been evaluated once, at entry
                then.insert(t.draw(len(then) + 1, "flippos"),
                            ("assign", c.name, None, Const(False) if t.chance(0.5) else Not(Var(c.name)), [], self.mode()))
            else_ = None
            if F.else_ and t.chance(0.5, "else"):
                D_else = set(D)
                else_ = self.gen_block(D_else, depth - 1 if F.nested_if else 0, 1 + t.draw(3, "nelse"))
                D |= (D_then & D_else)
            return ("if", form, then, else_)
        if k == 6:
            kind = t.weighted([3, 1 if self.arrs(D) and F.arrays else 0], "ykind")
            if kind == 0:
                e = self.g_num(D, 1, allow_calls=F.calls)
            else:
                e = Var(self.pick(self.arrs(D), "ya"))
                if t.chance(0.5, "ycopy"):
                    e = Bin("+", e, e)
            tvars = [v for v in self.nums(D) if not v.startswith("<")]
            te = [Var("<t>"), Bin("+", Var("<t>"), Var("<dt>")), Const(0),
                  Var(tvars[t.draw(len(tvars), "ytv")]) if tvars else Var("<t>")][
                      t.weighted([3, 2, 1, 2 if tvars else 0], "ytime")]
            return ("yield", e, self.pick(COMPONENTS, "comp"), te, self.pick(TIME_IDS, "tid"), self.mode())
        if k == 7:
            out = []
            if not self.fresh_handles:
                self.safe_after_fresh = set(self.used_in_phase)
            for _ in range(1 + t.draw(3, "nfresh")):
                h = "$f%d" % self.fresh_n
                self.fresh_n += 1
                self.fresh_handles.append(h)
                prefix = FRESH_PREFIXES[t.weighted([4, 1, 1, 1, 1, 3], "fp")]
                if not self.cfg and F.adv_names and t.chance(0.15, "fp_read"):
                    # prefix spelled like a name the phase has only read so far (resolved when applied)
                    prefix = "@read"
                out.append(("fresh", h, prefix, bool(t.draw(2, "fvapi"))))
            return out
        if k == 8:
            opts = []
            if F.fail:
                opts.append(("fail",))
            if F.switch and len(self.phase_names) > 1:
                opts.append(("switch", self.pick(self.phase_names, "sw")))
            if F.restart:
                opts.append(("restart",))
            if F.raise_:
                opts.append(("raise", self.pick(sorted(ERRORS), "err"), self.pick(["boom", None, "x'y"], "msg")))
            if not opts:
                return None
            term = self.pick(opts, "term")
            others = [p_ for p_ in self.phase_names if term[0] == "switch" and p_ != term[1]]
            if term[0] == "switch" and len(self.phase_names) >= 3 and others and t.chance(0.7, "switchburst"):
                # two guarded switches to two different phases in the same block
                c1, c2 = self.g_bool(D, 1), self.g_bool(D, 1)
                return [("if", ("1", c1, self.mode()), [term], None),
                        ("if", ("1", c2, self.mode()), [("switch", self.pick(others, "sw2"))], None)]
            if depth >= self.max_depth and not (F.dead_code and t.chance(0.15, "bareterm")):
                # guard it so that the phase is not always cut short
                c = self.g_bool(D, 1)
                return ("if", ("1", c, self.mode()), [term], None)
            return term
        if k == 9:
            arrs = self.arrs(D)
            a0 = self.pick(arrs, "wa")
            n = self.types[a0][1]
            e = self.g_arr(D, n, 2)
            pts = self.persistent_targets(("arr", n))
            if pts and t.chance(0.4, "wpers"):
                tgt = self.pick(pts, "wp")
            else:
                tgt = self.new_temp(D, ("arr", n), pool=ARR_POOL)
                if tgt is None:
                    return None
            D.add(tgt)
            if isinstance(e, Call):
                return ("call", (tgt,), e, self.mode())
            return ("assign", tgt, None, e, [], self.mode())
        if k == 10:
            cands = [n for n in BND_POOL if n not in self.types]
            if not cands:
                return None
            n = self.pick(cands, "bn")
            v = t.draw(5, "bv")
            self.types[n] = "bnd"
            self.bnd_val[n] = v
            D.add(n)
            return ("assign", n, None, Const(v), [], self.mode())
        return None

    # ---------- whole script
    def gen(self):
        t = self.tape
        F = self.F
        sc = Script()
        cfg = self.cfg
        with t.span("sizes"):
            if "phase_names" in cfg:
                names = list(cfg["phase_names"])
                n_ph = len(names)
            else:
                n_ph = 1 + (t.draw(self.max_phases, "nph") if F.phases else 0)
                names = []
                pool = list(PHASE_NAMES)
                for _ in range(n_ph):
                    names.append(pool.pop(t.draw(len(pool), "phname")))
            self.phase_names = names
            sc.initial = names[0]
        with t.span("state"):
            # persistent variables available from set_up
            self.assignable = set()
            sc.state0 = {}
            state_num = cfg.get("state_num", STATE_NUM)
            state_int = cfg.get("state_int", STATE_INT)
            state_arr = cfg.get("state_arr", STATE_ARR)
            n_state = 1 + t.draw(len(state_num), "nstate")
            for nme in state_num[:n_state]:
                self.types[nme] = "float"
                sc.state0[nme[7:]] = self.pick(FLT_CONSTS + [1, 2, 3], "sv")
                self.assignable.add(nme)
            if t.chance(0.7, "sint"):
                nme = self.pick(state_int, "sin")
                self.types[nme] = "int"
                sc.state0[nme[7:]] = t.draw(4, "siv")
                self.assignable.add(nme)
            if F.arrays and t.chance(0.6, "sarr"):
                nme = self.pick(state_arr, "san")
                n = 2 + t.draw(3, "salen")
                self.types[nme] = ("arr", n)
                sc.state0[nme[7:]] = np.array([float(self.pick(FLT_CONSTS, "sae")) for _ in range(n)])
                self.assignable.add(nme)
            sc.t0 = self.pick([0, 0.5, 1, 0.0, -1, -0.5, -2.0], "t0")
            sc.dt0 = self.pick([1, 0.5, 0.25, 2], "dt0")
            self.types["<t>"] = "float"
            self.types["<dt>"] = "float"
            if not cfg.get("no_advance"):
                self.assignable.add("<t>")
                if t.chance(0.3, "dtassign"):
                    self.assignable.add("<dt>")
            # shared read-only persistent variables (name -> (type, value)), e.g. for fusion workloads
            for nme, (ty, val) in sorted(cfg.get("shared_ro", {}).items()):
                self.types[nme] = ty
                sc.state0[nme[7:]] = val
        persistent_defined = set(n for n in self.types)
        # <p> variables: assigned unconditionally at the top of the initial phase
        p_init_ops = []
        if self.persistent_p and n_ph > 1 and t.chance(0.7, "pvars"):
            with t.span("pvars"):
                for nme in [self.pick(P_NUM, "pn")] + ([self.pick(P_INT, "pi")] if t.chance(0.5) else []):
                    typ = "float" if nme in P_NUM else "int"
                    self.types[nme] = typ
                    self.assignable.add(nme)
                    e = self.const_num(int_only=(typ == "int"))
                    p_init_ops.append(("assign", nme, None, e, [], self.mode()))
        for pi, name in enumerate(names):
            with t.span("phase"):
                self.fresh_handles = []
                self.used_in_phase = set()
                self.safe_after_fresh = set()
                self.counter_range = {}
                # temporaries are per phase: forget non-persistent definitions but keep types
                D = set(persistent_defined)
                if pi == 0:
                    ops = list(p_init_ops)
                    for op in p_init_ops:
                        D.add(op[1])
                else:
                    ops = []
                    for op in p_init_ops:
                        D.add(op[1])
                nxt = names[t.draw(len(names), "next")] if t.chance(0.5, "nextrand") else names[(pi + 1) % len(names)]
                if "next" in cfg:
                    nxt = cfg["next"][name]
                n_ops = 1 + t.draw(self.max_ops, "nops")
                ops += self.gen_block(D, self.max_depth, n_ops, top=True)
                with t.span("counter_becomes_variable"):
                    used_ctrs = sorted(_loop_counters(ops))
                    pts = self.persistent_targets("float")
                    if used_ctrs and pts and F.loops and "extra_temps" not in cfg and t.chance(0.2, "ctr_as_var"):
                        # a name that served as loop variable earlier in the phase is assigned as an ordinary
                        # variable afterwards and read (the loops before it must be over by then)
                        c = self.pick(used_ctrs, "ctrv")
                        pt = self.pick(pts, "ctrp")
                        ops.append(("assign", c, None, Const(7), [], self.mode()))
                        ops.append(("assign", pt, None, Bin("+", Var(pt), Var(c)), [], self.mode()))
                if pi == 0 and self.unique_sites and not self.used_funcs:
                    # fault-injection workloads need at least one user-function call
                    tgt = sorted(n for n in self.types if n.startswith("<state>") and self.types[n] == "float")[0]
                    ops.insert(t.draw(len(ops) + 1, "callpos"),
                               ("assign", tgt, None, Bin("+", self.ucall("<func>f", [Var(tgt)]), Const(2)), [], "o"))
                if not cfg.get("no_advance") and t.chance(0.8, "advance_t"):
                    ops.append(("assign", "<t>", None, Bin("+", Var("<t>"), Var("<dt>")), [], self.mode()))
                if pi == 0 and not any(op[0] == "yield" for op in ops) and t.chance(0.5, "finalyield"):
                    ops.append(("yield", Var("<state>" + sorted(sc.state0)[0]),
                                "y", Var("<t>"), "final", "o"))
                sc.phases.append(PhaseS(name, nxt, ops))
        sc.types = dict(self.types)
        sc.funcs = sorted(self.used_funcs)
        sc.func_alias = dict(self.func_alias)
        sc.shape_sig = list(self.shape)
        sc.features = [n for n in Features.NAMES if getattr(F, n)]
        return sc


def _loop_counters(ops):
    out = set()
    for op in ops:
        if op[0] == "assign" and op[4]:
            out.update(c for c, _lo, _hi in op[4])
        elif op[0] == "if":
            out |= _loop_counters(op[2])
            if op[3]:
                out |= _loop_counters(op[3])
    return out


# ---------------------------------------------------------------- applying a script

class Applied:
    """Result of replaying a script on real CodeBuilders."""

    def __init__(self):
        self.builders = {}
        self.fresh = {}           # handle -> actual name
        self.fresh_log = []       # (phase, n_statements_before, actual name)
        self.stack = []           # enclosing (flag variable, negated) while applying
        self.guards = {}          # (phase, statement index) -> expected [(flag, negated), ...]
        self.flags = {}           # phase -> list of flag variable names created by if_
        self.op_stmts = {}        # id(op) -> (phase, [statement indices])

    def nm(self, name):
        if name.startswith("$"):
            return self.fresh[name]
        return name


def _rend(e, ap, mode):
    return render(e, ap.nm, mode)


def apply_ops(cb, ops, ap, phase_name):
    from pymbolic.primitives import Subscript, Variable
    for op in ops:
        k = op[0]
        n0 = len(cb.statements)
        if k != "if":
            _apply_one(cb, op, ap, phase_name)
            for idx in range(n0, len(cb.statements)):
                ap.guards[(phase_name, idx)] = list(ap.stack)
            ap.op_stmts[id(op)] = (phase_name, list(range(n0, len(cb.statements))))
            continue
        _, form, then, else_ = op
        if form[0] == "1":
            cm = cb.if_(_rend(form[1], ap, form[2]))
        else:
            cm = cb.if_(_rend(form[1], ap, form[4]), form[2], _rend(form[3], ap, form[5]))
        with cm:
            ap.guards[(phase_name, n0)] = list(ap.stack)
            ap.op_stmts[id(op)] = (phase_name, [n0])
            flag = cb.statements[n0].assignee if len(cb.statements) > n0 else None
            ap.flags.setdefault(phase_name, []).append(flag)
            ap.stack.append((flag, False))
            apply_ops(cb, then, ap, phase_name)
            ap.stack.pop()
        if else_ is not None:
            with cb.else_():
                ap.stack.append((flag, True))
                apply_ops(cb, else_, ap, phase_name)
                ap.stack.pop()


def _apply_one(cb, op, ap, phase_name):
    from pymbolic.primitives import Subscript, Variable
    if True:
        k = op[0]
        if k == "assign":
            _, tgt, sub, e, loops, mode = op
            name = ap.nm(tgt)
            from simdag.gen.expr import parseable
            if mode == "s" and parseable(name) and (sub is None or sub.stringable()):
                lhs = name if sub is None else "%s[%s]" % (name, sub.s(ap.nm))
            else:
                lhs = Variable(name) if sub is None else Subscript(Variable(name), sub.pym(ap.nm))
            lp = [(ap.nm(c), _rend(lo, ap, mode), _rend(hi, ap, mode)) for c, lo, hi in loops]
            rhs = _rend(e, ap, mode)
            if isinstance(lhs, str) != isinstance(rhs, str) and isinstance(lhs, str):
                lhs = Variable(name) if sub is None else Subscript(Variable(name), sub.pym(ap.nm))
            if loops:
                cb.assign(lhs, rhs, loops=lp)
            else:
                cb(lhs, rhs)
        elif k == "call":
            _, asg, e, mode = op
            names = tuple(ap.nm(a) for a in asg)
            from simdag.gen.expr import parseable
            if mode == "s" and all(parseable(n) for n in names):
                lhs = names if len(names) != 1 else names[0]
            else:
                lhs = tuple(Variable(n) for n in names) if len(names) != 1 else Variable(names[0])
            cb.assign(lhs, _rend(e, ap, mode))
        elif k == "yield":
            _, e, comp, te, tid, mode = op
            cb.yield_state(_rend(e, ap, mode), comp, te.pym(ap.nm), tid)
        elif k == "implicit":
            from pymbolic import var as _v
            _, tgt, unk, e, guess = op
            cb.assign_implicit_1(_v(ap.nm(tgt)), _v(ap.nm(unk)), e.pym(ap.nm), guess.pym(ap.nm))
        elif k == "fresh":
            _, h, prefix, use_var = op
            before = len(cb.statements)
            if prefix == "@read":
                rd, wr = set(), set()
                for st in cb.statements:
                    rd |= set(st.get_read_variables())
                    wr |= set(st.get_written_variables())
                only_read = sorted(v for v in rd - wr if v.startswith(("<p>", "<state>")) or v in ("<t>", "<dt>"))
                prefix = only_read[0] if only_read else "temp"
            if use_var:
                name = cb.fresh_var(prefix).name
            else:
                name = cb.fresh_var_name(prefix)
            ap.fresh[h] = name
            ap.fresh_log.append((phase_name, before, name))
        elif k == "fail":
            cb.fail_step()
        elif k == "switch":
            cb.switch_phase(op[1])
        elif k == "restart":
            cb.restart_step()
        elif k == "raise":
            cb.raise_(ERRORS[op[1]], op[2])
        else:
            raise AssertionError(k)


_LANG_NOASSERT = [None]


def language_without_asserts():
    """dagrt.language compiled the way `python -O` compiles it (assert statements, and whatever they do, are
    gone), as a second module object.  Statements and builders made from it work with the ordinary interpreter,
    generators and transforms."""
    if _LANG_NOASSERT[0] is None:
        import types
        import dagrt.language as real
        with open(real.__file__) as f:
            src = f.read()
        mod = types.ModuleType("dagrt.language")
        mod.__file__ = real.__file__
        mod.__package__ = "dagrt"
        exec(compile(src, real.__file__, "exec", optimize=1), mod.__dict__)
        _LANG_NOASSERT[0] = mod
    return _LANG_NOASSERT[0]


def apply_script(sc, language=None):
    """language: the module to take CodeBuilder from (default: dagrt.language)."""
    if language is None:
        import dagrt.language as language
    CodeBuilder = language.CodeBuilder
    ap = Applied()
    for ph in sc.phases:
        with CodeBuilder(ph.name) as cb:
            apply_ops(cb, ph.ops, ap, ph.name)
        ap.builders[ph.name] = cb
    return ap


def script_names(sc, ap):
    """every variable name the script mentions (targets, expression variables, loop counters, guard
    flags are not included) -- collected from the script itself, not from dagrt's read/write sets."""
    from simdag.gen.expr import expr_vars
    out = {}

    def ops(os_, acc):
        for op in os_:
            k = op[0]
            if k == "assign":
                acc.add(ap.nm(op[1]))
                for e in [op[3]] + ([op[2]] if op[2] is not None else []):
                    acc.update(ap.nm(v) for v in expr_vars(e))
                for c, lo, hi in op[4]:
                    acc.add(ap.nm(c))
                    acc.update(ap.nm(v) for v in expr_vars(lo) + expr_vars(hi))
            elif k == "call":
                acc.update(ap.nm(a) for a in op[1])
                acc.update(ap.nm(v) for v in expr_vars(op[2]))
            elif k == "yield":
                acc.update(ap.nm(v) for v in expr_vars(op[1]) + expr_vars(op[3]))
            elif k == "if":
                form = op[1]
                es = [form[1]] if form[0] == "1" else [form[1], form[3]]
                for e in es:
                    acc.update(ap.nm(v) for v in expr_vars(e))
                ops(op[2], acc)
                if op[3]:
                    ops(op[3], acc)
    for ph in sc.phases:
        acc = set()
        ops(ph.ops, acc)
        out[ph.name] = acc
    return out


def make_function_map(sc, table=None):
    """function_map for the steppers; every call goes through `table` if given
    (a FuncTable that counts calls and injects faults)."""
    out = {}
    for fn in sc.funcs:
        impl = sc.func_impl(fn)
        out[fn] = table.wrap(fn, impl) if table is not None else impl
    return out
