"""User-function seam: pure library functions behind a call counter with an
optional fault plan (the k-th call raises a given exception object)."""


class InjectedFault(Exception):
    pass


class InjectedAttributeError(AttributeError):
    pass


class InjectedBaseFault(BaseException):
    """Not a subclass of Exception (like KeyboardInterrupt during a long right-hand side)."""


# not dagrt's control exceptions, StopIteration or GeneratorExit
FAULT_CLASSES = [InjectedFault, ValueError, ZeroDivisionError, KeyError, FloatingPointError,
                 AttributeError, TypeError, IndexError, RuntimeError, NotImplementedError, AssertionError,
                 OSError, NameError, ArithmeticError, LookupError, InjectedAttributeError, UnboundLocalError,
                 OverflowError, BufferError, InjectedBaseFault, KeyboardInterrupt]


class FuncTable:
    def __init__(self, log=None, tag=""):
        self.calls = 0              # total calls so far
        self.step_calls = 0         # calls in the current step (reset by the driver)
        self.fault_at = None        # (step_call_index) at which to raise, counted per step
        self.fault_exc = None
        self.armed = False
        self.fired = None           # (fn, index) once fired
        self.log = log
        self.tag = tag
        self.trace = []             # (fn, step_call_index)
        self.on_call = None

    def arm(self, k, exc):
        self.fault_at, self.fault_exc, self.armed, self.fired = k, exc, True, None

    def disarm(self):
        self.armed = False

    def new_step(self):
        self.step_calls = 0

    def wrap(self, fn, impl):
        def wrapped(*args, **kwargs):
            idx = self.step_calls
            self.step_calls += 1
            self.calls += 1
            self.trace.append((fn, idx))
            if self.on_call is not None:
                self.on_call(fn, idx)
            if self.armed and idx == self.fault_at:
                self.armed = False
                self.fired = (fn, idx)
                if self.log is not None:
                    self.log.add("call", self.tag, fn, idx, "FAULT:" + type(self.fault_exc).__name__)
                raise self.fault_exc
            return impl(*args, **kwargs)
        return wrapped
