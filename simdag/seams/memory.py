"""Uninitialised-memory seam.  dagrt's <builtin>array returns numpy.empty(n): storage whose content
is whatever the allocator left there.  Both Python back ends reach it through the attribute
numpy.empty at call time, so the simulator owns it: under simulation fresh storage is filled with
NaN, which makes every run repeatable and lets the oracles treat "never assigned" as a value of
its own instead of comparing two pieces of garbage."""
import numpy as np

_real_empty = np.empty


def _sim_empty(shape, dtype=float, *args, **kwargs):
    arr = _real_empty(shape, dtype, *args, **kwargs)
    if arr.dtype.kind in "fc":
        arr.fill(np.nan)
    return arr


_sim_empty._simdag = True


def own_uninitialised_memory():
    if not getattr(np.empty, "_simdag", False):
        np.empty = _sim_empty
