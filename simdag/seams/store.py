"""Recording variable store swapped into NumpyInterpreter.context and
eval_mapper.context: logs reads, writes, deletes and reads of missing names."""
import numpy as np


class RecStore(dict):
    def __init__(self, init=()):
        dict.__init__(self, init)
        self.begin()

    def begin(self):
        self.r = set()
        self.w = set()
        self.d = set()
        self.missing = set()

    def __getitem__(self, k):
        self.r.add(k)
        return dict.__getitem__(self, k)

    def get(self, k, default=None):
        self.r.add(k)
        return dict.get(self, k, default)

    def __contains__(self, k):
        ok = dict.__contains__(self, k)
        if not ok:
            self.missing.add(k)
        return ok

    def __setitem__(self, k, v):
        self.w.add(k)
        # magnitude guard: engines without a reference model must not let values explode (Python
        # integers are unbounded: x <- x**3 over many steps never finishes)
        if isinstance(v, (int, float, np.integer, np.floating)) and not isinstance(v, (bool, np.bool_)):
            if not abs(v) < 1e30:
                from simdag.core.outcome import Discard
                raise Discard("ill-defined:magnitude")
        dict.__setitem__(self, k, v)

    def __delitem__(self, k):
        self.d.add(k)
        dict.__delitem__(self, k)

    def pop(self, k, *a):
        self.d.add(k)
        return dict.pop(self, k, *a)

    def array_fingerprint(self):
        return {k: v.tobytes() for k, v in dict.items(self) if isinstance(v, np.ndarray)}


def copy_store(d):
    return {k: (v.copy() if isinstance(v, np.ndarray) else v) for k, v in dict.items(d)}
