"""Simulator-owned iteration order for dagrt's dependency containers.

OrdFS is a frozenset whose Python-level iteration order is decided by the
simulator *each time it is iterated*.  Set algebra, membership, len and the
C-level conversions set(x)/frozenset(x) behave as for any frozenset.
"""
from dagrt.language import ExecutionPhase


class OrdFS(frozenset):
    def __new__(cls, items, chooser=None, site=""):
        items = list(items)
        self = super().__new__(cls, items)
        try:
            self._items = sorted(set(items))
        except TypeError:
            self._items = list(dict.fromkeys(items))
        self._chooser = chooser
        self._site = site
        return self

    def __iter__(self):
        if self._chooser is None or len(self._items) < 2:
            return iter(list(self._items))
        return iter(self._chooser(self._site, self._items))

    def __reduce__(self):
        return (frozenset, (list(self._items),))


class TapeChooser:
    """Permutation drawn from the tape at every iteration; logged."""

    def __init__(self, tape, log=None, counter=None, enabled=True):
        self.tape = tape
        self.log = log
        self.counter = counter
        self.enabled = enabled

    def __call__(self, site, items):
        if not self.enabled:
            return list(items)
        order = [items[i] for i in self.tape.perm(len(items), "perm:" + site)]
        if self.counter is not None and order != list(items):
            self.counter(site)
        if self.log is not None:
            self.log.add("perm", site, order)
        return order


class SimPhase(ExecutionPhase):
    """ExecutionPhase whose sink set is iterated in simulator-chosen order."""

    def __init__(self, name, next_phase, statements, chooser=None):
        super().__init__(name=name, next_phase=next_phase, statements=statements)
        object.__setattr__(self, "_sim_chooser", chooser)

    @property
    def depends_on(self):
        real = ExecutionPhase.depends_on.fget(self)
        return OrdFS(real, self._sim_chooser, "sinks:" + self.name)


class PhaseProxy:
    """Stands in front of a real ExecutionPhase -- built however the scenario wants, e.g. by copy() from
    another phase -- and owns nothing but the iteration order of its sink set."""

    def __init__(self, real, chooser=None):
        object.__setattr__(self, "_real", real)
        object.__setattr__(self, "_sim_chooser", chooser)

    @property
    def depends_on(self):
        return OrdFS(self._real.depends_on, self._sim_chooser, "sinks:" + self._real.name)

    def __getattr__(self, name):
        return getattr(object.__getattribute__(self, "_real"), name)


def make_phase(tape, name, next_phase, statements, chooser, counter=None):
    """A real ExecutionPhase behind a PhaseProxy; sometimes made by copy() from a draft phase with other
    statements whose sinks and id table were already looked at (what user-facing transforms do)."""
    if tape.chance(0.3, "phase_by_copy"):
        n = len(statements)
        k = tape.draw(n + 1, "draft_len")
        draft = ExecutionPhase(name=name, next_phase=next_phase, statements=list(statements[:k]))
        if tape.chance(0.7, "draft_used"):
            draft.depends_on
            draft.id_to_stmt
        real = draft.copy(statements=list(statements))
        if counter is not None:
            counter("probe:phase_made_by_copy")
    else:
        real = ExecutionPhase(name=name, next_phase=next_phase, statements=list(statements))
    return PhaseProxy(real, chooser)


def own_dependency_orders(statements, chooser):
    """Replace every statement's depends_on by an OrdFS (in place)."""
    for st in statements:
        st.depends_on = OrdFS(st.depends_on, chooser, "deps:" + str(st.id))
    return statements
