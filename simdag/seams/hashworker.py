"""Worker process for E-det: started with PYTHONHASHSEED=h, reads one JSON document
(a list of jobs) from stdin, writes one JSON document (a list of answers).

Jobs carry only tape slices and integers, so a replay re-creates the worker's
execution exactly.  The job list of one process *is* its history: jobs earlier
in the list pollute process-global state (counters, caches, class-level field
sets) before the job under test runs.
"""
import hashlib
import io
import json
import os
import random
import sys
import contextlib
import traceback


def sha(s):
    return hashlib.sha256(s.encode()).hexdigest()


class RngChooser:
    def __init__(self, seed):
        self.rng = random.Random(seed)

    def __call__(self, site, items):
        order = list(items)
        self.rng.shuffle(order)
        return order


ID_STEMS = ["upd_y", "upd_z", "stage", "rhs"]


def rename_ids(stmts, salt):
    """hand-written style statement ids: main_7 -> upd_z_3 etc.  (several ids share a numeric suffix and
    differ only before it); a fixed function of the builder id, identical in every worker"""
    def new_id(old):
        k = int(old.rsplit("_", 1)[1])
        return "%s_%d" % (ID_STEMS[(k * 7 + salt) % len(ID_STEMS)], k // 2)
    mapping = {}
    used = set()
    for st in stmts:
        n = new_id(st.id)
        while n in used:
            n += "x"
        used.add(n)
        mapping[st.id] = n
    return [st.copy(id=mapping[st.id], depends_on=frozenset(mapping[d] for d in st.depends_on)) for st in stmts]


def build_dag(sc, ap, order_seed, permute_phases=True, id_salt=None):
    """DAGCode with worker-chosen container orders (order_seed None = builder order, plain sets)."""
    from dagrt.language import DAGCode, ExecutionPhase
    from simdag.seams.ordfs import OrdFS
    rng = random.Random(order_seed) if order_seed is not None else None
    chooser = RngChooser(order_seed + 1) if order_seed is not None else None
    phases = {}
    order = list(sc.phases)
    if rng is not None and permute_phases:
        rng.shuffle(order)
    for ph in order:
        stmts = list(ap.builders[ph.name].statements)
        if id_salt is not None:
            stmts = rename_ids(stmts, id_salt)
        if rng is not None:
            rng.shuffle(stmts)
            cp = []
            for st in stmts:
                c = st.copy()
                c.depends_on = OrdFS(st.depends_on, chooser, "deps")
                cp.append(c)
            stmts = cp
        phases[ph.name] = ExecutionPhase(ph.name, ph.next_phase, stmts)
    return DAGCode(phases, sc.initial)


def gen_py_script(values, **kw):
    from simdag.core.tape import Tape
    from simdag.gen.script import ScriptGen, apply_script
    tape = Tape(recorded=values)
    kw.setdefault("max_ops", 8)
    kw.setdefault("max_phases", 3)
    sc = ScriptGen(tape, **kw).gen()
    return sc, apply_script(sc)


def gen_f_script(values, **kw):
    from simdag.core.tape import Tape
    from simdag.gen.fortran_subset import FortranGen
    from simdag.gen.script import apply_script
    tape = Tape(recorded=values)
    sc = FortranGen(tape, **kw).gen()
    return sc, apply_script(sc)


def python_text(sc, ap, order_seed, id_salt=None):
    from dagrt.codegen import PythonCodeGenerator
    # the Python generator emits phases in dag.phases insertion order, which the property does not
    # list among the things the text must be independent of: phase order is kept fixed here
    code = build_dag(sc, ap, order_seed, permute_phases=False, id_salt=id_salt)
    return PythonCodeGenerator(class_name="Method")(code)


PREBUILT_TYPES = {}      # tuple(f_values) -> user type map made at worker start (default index variables)


def fortran_text(sc, ap, order_seed, id_salt=None, utm=None, options=None):
    import dagrt.codegen.fortran as f
    from simdag.gen.fortran_subset import make_registry, module_preamble, user_type_map
    code = build_dag(sc, ap, order_seed, id_salt=id_salt)
    freg, _twins = make_registry(sc)
    kw = {}
    options = options or {}
    if options.get("instrumented"):
        # generator configuration: phase/function counters and timers
        kw.update(emit_instrumentation=True, timing_function="second")
    if options.get("hooks"):
        # ... and two notification functions around every state update (the method does not call them itself)
        from dagrt.function_registry import register_function
        for fn in ("notify_pre", "notify_post"):
            freg = register_function(freg, fn, ("updated_component",), result_names=(), result_kinds=())
            freg = freg.register_codegen(fn, "fortran", f.CallCode("\n    ! %s\n    " % fn))
        kw.update(call_before_state_update="notify_pre", call_after_state_update="notify_post")
    cg = f.CodeGenerator("m", function_registry=freg, user_type_map=utm if utm is not None else user_type_map(sc),
                         module_preamble=module_preamble(sc), **kw)
    buf = io.StringIO()
    with contextlib.redirect_stdout(buf):
        return cg(code)


def interp_log(sc, ap, order_seed, steps=3):
    import numpy as np
    from dagrt.exec_numpy import NumpyInterpreter
    from simdag.core.log import vdigest
    np.seterr(all="ignore")
    if order_seed is None:
        # exactly what CodeBuilder.as_execution_phase gives: a frozenset of statements
        from dagrt.language import DAGCode
        code = DAGCode({ph.name: ap.builders[ph.name].as_execution_phase(ph.next_phase) for ph in sc.phases},
                       sc.initial)
    else:
        code = build_dag(sc, ap, order_seed)
    it = NumpyInterpreter(code, {fn: sc.func_impl(fn) for fn in sc.funcs})
    it.set_up(sc.t0, sc.dt0, {k: (v.copy() if hasattr(v, "copy") else v) for k, v in sc.state0.items()})
    log = []
    try:
        n = 0
        for ev in it.run(max_steps=steps):
            log.append([type(ev).__name__] + [vdigest(x) for x in ev])
            n += 1
            if n >= 40:
                break
    except Exception as e:
        log.append(["EXC", type(e).__name__])
    log.append(["STORE", sorted((k, vdigest(v)) for k, v in it.context.items())])
    return json.dumps(log)


def do_history(h):
    """an earlier, separate generator invocation in the same process."""
    kind = h["kind"]
    try:
        if kind == "py":
            sc, ap = gen_py_script(h["values"])
            python_text(sc, ap, h.get("order_seed"))
        elif kind == "fortran":
            sc, ap = gen_f_script(h["values"])
            # (its user types name their index variables themselves: the class-wide counter moves)
            from simdag.gen.fortran_subset import user_type_map
            fortran_text(sc, ap, h.get("order_seed"), utm=user_type_map(sc, default_index=True))
        elif kind == "fortran_raises":
            # a generator that fails half-way: user type missing from the map
            import dagrt.codegen.fortran as f
            sc, ap = gen_f_script(h["values"])
            code = build_dag(sc, ap, None)
            from simdag.gen.fortran_subset import make_registry
            freg, _ = make_registry(sc)
            f.CodeGenerator("m", function_registry=freg, user_type_map={})(code)
        elif kind == "types":
            # constructing types advances dagrt's process-global index-variable counter
            import dagrt.codegen.fortran as f
            for _ in range(h.get("n", 3)):
                f.ArrayType((3,), f.BuiltinType("real*8"))
        elif kind == "interp":
            sc, ap = gen_py_script(h["values"])
            interp_log(sc, ap, h.get("order_seed"))
    except Exception:
        pass


def job_c15(job):
    for h in job.get("history", []):
        do_history(h)
    out = {}
    try:
        kw = job.get("py_kw") or {}
        sc, ap = gen_py_script(job["py_values"], force=tuple(kw.get("force") or ()), cfg=kw.get("cfg"))
        reuse = job.get("reuse") or []
        # earlier, separate generator objects (or an interpreter) that were given these very description
        # objects: the description must come out of them as it went in
        for r in reuse:
            try:
                if r == "py":
                    python_text(sc, ap, job.get("order_seed"), job.get("id_salt"))
                elif r == "py_plain":
                    python_text(sc, ap, None, None)
                elif r == "interp":
                    interp_log(sc, ap, None)
            except Exception:
                pass
        out["python"] = python_text(sc, ap, job.get("order_seed"), job.get("id_salt"))
        if job.get("want_interp", True):
            if "interp_shared" in reuse:
                out["interp"] = interp_log(sc, ap, job.get("order_seed"))
            else:
                sc_i, ap_i = gen_py_script(job["py_values"], force=tuple(kw.get("force") or ()), cfg=kw.get("cfg"))
                out["interp"] = interp_log(sc_i, ap_i, job.get("order_seed"))
    except Exception as e:
        out["python_exc"] = "%s: %s" % (type(e).__name__, "".join(traceback.format_exception_only(type(e), e))[:300])
    if job.get("extra_py"):
        extra = []
        for vals in job["extra_py"]:
            try:
                sc2, ap2 = gen_py_script(vals, force=("phases", "switch"),
                                         cfg={"phase_names": ["main", "p2", "init", "primary"]}, max_ops=6)
                extra.append(python_text(sc2, ap2, job.get("order_seed"), job.get("id_salt")))
            except Exception as e:
                extra.append("EXC:" + type(e).__name__)
        out["python_extra"] = "\n#=====\n".join(extra)
    if job.get("f_values") is not None:
        try:
            scf, apf = gen_f_script(job["f_values"])
            utm = PREBUILT_TYPES.get(tuple(job["f_values"])) if job.get("default_index_vars") else None
            if "fortran" in (job.get("reuse") or []):
                try:
                    fortran_text(scf, apf, None, None, utm=utm)
                except Exception:
                    pass
            out["fortran"] = fortran_text(scf, apf, job.get("order_seed"), job.get("id_salt"), utm=utm,
                                          options=job.get("f_options"))
        except Exception as e:
            out["fortran_exc"] = type(e).__name__ + ":" + str(e)[:120]
    return out


def kind_repr(k):
    if k is None:
        return "None"
    args = k.__getinitargs__()
    return type(k).__name__ + (repr(tuple(args)) if args else "")


def job_c14(job):
    """kind inference on a permuted presentation of a program."""
    from dagrt.data import SymbolKindFinder
    from simdag.gen.fortran_subset import make_registry
    from simdag.gen.kinds import build_kind_program
    rng = random.Random(job["perm_seed"]) if job.get("perm_seed") is not None else None
    names, phases, freg = build_kind_program(job["values"], job["source"])
    names0, phases0 = list(names), [list(p) for p in phases]
    if job.get("same_ids"):
        # hand-written ids that are unique within a phase only (s0, s1, ... in every phase)
        renamed = []
        for p in phases:
            m = {st.id: "s%d" % k for k, st in enumerate(p)}
            renamed.append([st.copy(id=m[st.id], depends_on=frozenset(m[d] for d in st.depends_on)) for st in p])
        phases = renamed
    if job.get("empty_phase") is not None:
        # a phase without statements (its position is part of the presentation)
        j = job["empty_phase"] % (len(names) + 1)
        names = names[:j] + ["empty"] + names[j:]
        phases = phases[:j] + [[]] + phases[j:]
    if rng is not None:
        idx = list(range(len(names)))
        rng.shuffle(idx)
        names = [names[i] for i in idx]
        phases = [list(phases[i]) for i in idx]
        for p in phases:
            rng.shuffle(p)
    if job.get("as_iter"):
        # one-shot iterables, which is what the Fortran generator passes (get_statements_in_ast)
        phases = [iter(list(p)) for p in phases]
    buf = io.StringIO()
    finder = SymbolKindFinder(freg)
    if job.get("finder_used_before"):
        # history of the finder object itself: an earlier inference on it, over the same phase and variable
        # names, that could not succeed (nothing of it belongs to the next call)
        from dagrt.language import CodeBuilder
        used = sorted(set().union(*[st.get_written_variables() for p in phases0 for st in p]) or {"x"})
        with CodeBuilder(names0[0]) as cbp:
            cbp(used[0], "poison_a + poison_b")
            cbp("poison_c", "%s*poison_a" % used[-1])
        try:
            with contextlib.redirect_stdout(io.StringIO()):
                finder([names0[0]], [list(cbp.statements)])
        except Exception:
            pass
    try:
        with contextlib.redirect_stdout(buf):
            if job.get("finder_used_before") and not job.get("as_iter"):
                tbl = finder(names, phases)
            elif job.get("via_infer_kinds") and not job.get("as_iter"):
                # the public entry point, on a description whose phases are presented in this order
                from dagrt.data import infer_kinds
                from dagrt.language import DAGCode, ExecutionPhase
                dag = DAGCode({n: ExecutionPhase(n, n, list(p)) for n, p in zip(names, phases)}, names[0])
                tbl = infer_kinds(dag, freg)
            else:
                tbl = SymbolKindFinder(freg)(names, phases)
    except Exception as e:
        return {"outcome": "exc:" + type(e).__name__}
    g = sorted((n, kind_repr(k)) for n, k in tbl.global_table.items())
    per = sorted((ph, sorted((n, kind_repr(k)) for n, k in t.items())) for ph, t in tbl.per_phase_table.items()
                 if t)
    return {"outcome": "table", "global": g, "per_phase": per, "printed": bool(buf.getvalue().strip())}


def main():
    home = os.environ.get("VERIF_HOME", "/verif")
    if home not in sys.path:
        sys.path.insert(0, home)
    jobs = json.load(sys.stdin)
    real_out = sys.stdout
    sys.stdout = io.StringIO()       # dagrt prints diagnostics to stdout; keep the answer channel clean
    import dagrt
    from simdag.seams.memory import own_uninitialised_memory
    own_uninitialised_memory()
    repo = os.path.realpath(os.environ.get("VERIF_REPO", "/repo"))
    assert os.path.realpath(dagrt.__file__).startswith(repo + os.sep), dagrt.__file__
    # user types that name their index variables themselves are made once, before anything else happens in
    # this process (they are part of the method description, like the statements)
    for job in jobs:
        if job.get("type") == "c15" and job.get("default_index_vars") and job.get("f_values") is not None:
            key = tuple(job["f_values"])
            if key not in PREBUILT_TYPES:
                from simdag.gen.fortran_subset import user_type_map
                scf0, _apf0 = gen_f_script(job["f_values"])
                PREBUILT_TYPES[key] = user_type_map(scf0, default_index=True)
    answers = []
    for job in jobs:
        try:
            if job["type"] == "c15":
                answers.append(job_c15(job))
            elif job["type"] == "c14":
                answers.append(job_c14(job))
            else:
                answers.append({"error": "unknown job"})
        except Exception:
            answers.append({"error": traceback.format_exc()[-2000:]})
    json.dump({"hashseed": os.environ.get("PYTHONHASHSEED"), "answers": answers}, real_out)


if __name__ == "__main__":
    main()
