"""C04 — each step runs every statement once, after its dependencies.

Real: ExecutionController (reset/update_plan/__call__), ExecutionPhase.depends_on/
id_to_stmt, NumpyInterpreter.run_single_step/run (wired modes).
Simulated: the target (guards, dynamic plan requests, cut-offs), iteration order of
every dependency set and of the sinks, storage order, initial plan, step count.
"""
import numpy as np
from pymbolic import var

from dagrt.exec_numpy import (FailStepException, NumpyInterpreter, TransitionEvent,
                              StepCompleted, StepFailed)
from dagrt.language import (Assign, AssignFunctionCall, DAGCode, ExecutionController,
                            FailStep, Nop, Raise, SwitchPhase, YieldState)

from simdag.core.outcome import Violation
from simdag.gen.dags import KINDS, closure, gen_graph, sinks
from simdag.seams.ordfs import OrdFS, TapeChooser, make_phase

META = {"C04": {
    "level": "exploration",
    "quick_runs": 50000,
    "block": 100,
    "thorough_budget_s": 600,
    "rule": ("one run = one seeded acyclic graph (8 shapes, adversarial ids, 1..12 statements quick / "
             "1..40 thorough) driven for 1..4 steps through the real ExecutionController in one of "
             "three modes (direct, interpreter.run_single_step, interpreter.run) with a simulated "
             "target, or (every 5th run) a seeded builder program on the real interpreter with real guards "
             "and a guard-faithfulness check; every dependency-set/sink iteration order, guard value, dynamic request and "
             "cut-off is drawn from the tape. distinct = (graph edges, full callback history) hash; "
             "non-trivial = graph has >=1 edge and >=2 statements were visited"),
    "real": ["dagrt.language.ExecutionController", "dagrt.language.ExecutionPhase.depends_on/id_to_stmt",
             "dagrt.exec_numpy.NumpyInterpreter.run_single_step/run (wired modes)",
             "statement classes (exec_method dispatch)"],
    "stub": ["target callbacks evaluate_condition/exec_* (simulated guards, requests, cut-offs)",
             "iteration order of depends_on / sinks / statements (tape-owned OrdFS, PhaseProxy in front of a real ExecutionPhase)"],
    "assumptions": ["graphs are acyclic and dependency-closed (well-formed phases only)",
                    "the controller is reset at the start of each step, as the interpreter does"],
    "probes": ["request_executed", "request_planned", "request_new", "cutoff_then_step",
               "guard_false_with_dependents", "nested_request", "real_guard_false", "abandon_wired",
               "phase_made_by_copy", "guard_value_not_a_python_bool", "inner_stepper_ran_inside_a_step",
               "controller_code_with_asserts_stripped", "second_target_object", "stale_step_closed_inside_a_later_step"],
}}


class Foreign(Exception):
    pass


FOREIGN_CLASSES = [Foreign, AttributeError, KeyError, TypeError, ValueError, NotImplementedError, LookupError,
                   ZeroDivisionError]


def make_stmt(kind, sid, deps, cond=True):
    common = dict(id=sid, depends_on=deps)
    if kind == "Assign":
        return Assign(assignee="x", assignee_subscript=(), expression=var("y") + 1,
                      condition=cond, **common)
    if kind == "Nop":
        return Nop(**common)
    if kind == "YieldState":
        return YieldState(time=0, time_id="tid", expression=0, component_id="c",
                          condition=cond, **common)
    if kind == "AssignFunctionCall":
        return AssignFunctionCall(assignees=("x",), function_id="<func>f", parameters=(),
                                  condition=cond, **common)
    if kind == "FailStep":
        return FailStep(condition=cond, **common)
    if kind == "SwitchPhase":
        return SwitchPhase(next_phase="p", condition=cond, **common)
    if kind == "Raise":
        return Raise(Foreign, "m", condition=cond, **common)
    raise AssertionError(kind)


class Monitor:
    """Online invariants V1..V6 over the callback history of one step."""

    def __init__(self, ctx, ids, deps, kinds, anc, wired):
        self.ctx = ctx
        self.tape = ctx.tape
        self.phases = {}
        self.literal_false = {}
        self.add_phase("p", ids, deps, kinds, anc, set())
        self.use_phase("p")
        self.wired = wired
        self.step_no = -1
        self.history = []
        self.steps_decoded = []
        self.p_request = 0.0
        self.p_cut = 0.0
        self.p_false = 0.0
        self.inner = None
        self.p_inner = 0.0
        self.cur_target = None

    def add_phase(self, name, ids, deps, kinds, anc, literal_false):
        self.phases[name] = dict(ids=ids, idx={s: i for i, s in enumerate(ids)}, deps=deps, kinds=kinds,
                                 anc=anc, n=len(ids), lf=literal_false)

    def use_phase(self, name):
        ph = self.phases[name]
        self.phase_name = name
        self.ids, self.idx, self.deps = ph["ids"], ph["idx"], ph["deps"]
        self.kinds, self.anc, self.n, self.lf = ph["kinds"], ph["anc"], ph["n"], ph["lf"]

    # ---- step life cycle
    def begin_step(self, roots, phase="p"):
        self.use_phase(phase)
        self.step_no += 1
        self.visited = []
        self.visited_set = set()
        self.pending = None
        self.oblig = []           # stack of sets of indices that must be visited next
        self.required = set()
        for r in roots:
            self.required.add(r)
            self.required |= self.anc[r]
        self.expected_events = []
        self.received_events = []
        self.cut = None
        self.cur = {"step": self.step_no, "phase": phase, "roots": [self.ids[r] for r in roots], "visits": []}
        self.steps_decoded.append(self.cur)
        self.ctx.log.add("step", self.step_no, self.cur["roots"])

    def viol(self, cls, detail, site=""):
        raise Violation(cls, "step %d (phase %s): %s" % (self.step_no, self.phase_name, detail), site or self.mode)

    def end_step_complete(self):
        if self.pending is not None:
            self.viol("exec-skipped", "guard of %r was true but exec was never called"
                      % self.ids[self.pending])
        missing = sorted(self.ids[i] for i in self.required - self.visited_set)
        if missing:
            self.viol("not-visited", "step ended without visiting %r (visited %r)"
                      % (missing, [self.ids[i] for i in self.visited]))
        if len(self.received_events) != len(self.expected_events) or any(
                a is not b for a, b in zip(self.received_events, self.expected_events)):
            self.viol("event-mismatch", "events yielded %r, expected %r"
                      % (self.received_events, self.expected_events))

    # ---- callbacks
    def on_cond(self, stmt):
        if self.cut is not None:
            self.viol("continued-after-cutoff", "%r visited after a statement of this step raised %s"
                      % (stmt.id, type(self.cut).__name__))
        if self.inner is not None and self.tape.chance(self.p_inner, "inner_step"):
            self.inner()
        i = self.idx.get(stmt.id)
        if i is None:
            self.viol("foreign-statement", "callback for unknown statement %r" % (stmt.id,))
        if self.pending is not None:
            self.viol("exec-skipped", "guard of %r was true but exec was not called before "
                      "the next statement" % self.ids[self.pending])
        if len(self.received_events) != len(self.expected_events):
            self.viol("event-mismatch", "an event returned by a statement was not yielded "
                      "before the next statement ran")
        if i in self.visited_set:
            self.viol("visited-twice", "%r visited twice in one step (visits so far %r)"
                      % (stmt.id, [self.ids[j] for j in self.visited]))
        unmet = sorted(self.ids[j] for j in self.deps[i] if j not in self.visited_set)
        if unmet:
            self.viol("dep-not-visited", "%r visited before its dependencies %r (visits so far %r)"
                      % (stmt.id, unmet, [self.ids[j] for j in self.visited]))
        while self.oblig and not self.oblig[-1]:
            self.oblig.pop()
        if self.oblig:
            if i not in self.oblig[-1]:
                self.viol("request-not-prioritised",
                          "%r visited while requested statements %r (with unvisited dependencies) "
                          "were still outstanding" % (stmt.id, sorted(self.ids[j] for j in self.oblig[-1])))
            self.oblig[-1].discard(i)
        if len(self.visited) >= self.n:
            self.viol("no-progress", "more visits than statements")
        self.visited.append(i)
        self.visited_set.add(i)
        if self.deps[i]:
            pass
        if i in self.lf:
            guard = False          # the statement's condition is the literal False
            self.ctx.count("probe:literal_false_guard")
        else:
            guard = not self.tape.chance(self.p_false, "guard")
        if not guard and any(i in d for d in self.deps):
            self.ctx.count("probe:guard_false_with_dependents")
        self.ctx.log.add("cond", stmt.id, guard)
        self.cur["visits"].append([stmt.id, guard])
        if guard:
            self.pending = i
        # what a guard evaluates to is rarely the object True/False (numpy booleans, numbers)
        form = self.tape.draw(4, "guardform")
        if form:
            self.ctx.count("probe:guard_value_not_a_python_bool")
        return ([True, np.True_, 1, 2.5] if guard else [False, np.False_, 0, 0.0])[form]

    def on_exec(self, name, stmt):
        i = self.idx.get(stmt.id)
        if self.pending is None or self.pending != i:
            self.viol("exec-after-false-guard", "%s(%r) called without a true guard evaluation "
                      "immediately before" % (name, stmt.id))
        self.pending = None
        if name != "exec_" + self.kinds[i]:
            self.viol("wrong-dispatch", "%s called for a %s" % (name, self.kinds[i]))
        self.ctx.log.add("exec", stmt.id)
        tape = self.tape
        with tape.span("action"):
            act = tape.weighted([1.0 - self.p_request - self.p_cut - 0.1, self.p_request,
                                 0.1, self.p_cut], "action")
            if act == 0:
                form = tape.draw(3, "retform")
                return [None, (None, None), (None, [])][form]
            if act == 2:
                ev = ("EV", self.step_no, stmt.id)
                self.expected_events.append(ev)
                self.cur["visits"][-1].append("event")
                return (ev, None if tape.chance(0.5) else [])
            if act == 3:
                kind = tape.draw(3, "cutkind")
                target = sorted(self.phases)[tape.draw(len(self.phases), "switchto")]
                # an error inside a statement can be of any class
                fcls = FOREIGN_CLASSES[tape.draw(len(FOREIGN_CLASSES), "foreigncls")] if kind == 2 else Foreign
                exc = [FailStepException(), TransitionEvent(target), fcls("injected")][kind]
                self.cut = exc
                self.ctx.count("fault:cutoff_" + ["failstep", "transition", "foreign"][kind])
                self.cur["visits"][-1].append("cut:" + type(exc).__name__)
                self.ctx.log.add("cut", stmt.id, type(exc).__name__)
                raise exc
            # dynamic request
            k = 1 + tape.draw(3, "nreq")
            req = []
            for _ in range(k):
                req.append(tape.draw(self.n, "req"))
            need = set()
            for r in req:
                if r in self.visited_set:
                    self.ctx.count("probe:request_executed")
                elif r in self.required:
                    self.ctx.count("probe:request_planned")
                else:
                    self.ctx.count("probe:request_new")
                for j in [r] + sorted(self.anc[r]):
                    if j not in self.visited_set:
                        need.add(j)
                self.required.add(r)
                self.required |= self.anc[r]
            self.ctx.count("fault:dynamic_request")
            while self.oblig and not self.oblig[-1]:
                self.oblig.pop()
            if self.oblig:
                self.ctx.count("probe:nested_request")
                for s in self.oblig:
                    s -= need
            if need:
                self.oblig.append(need)
            ids = [self.ids[r] for r in req]
            self.cur["visits"][-1].append("request:" + ",".join(ids))
            self.ctx.log.add("request", stmt.id, ids)
            ev = None
            if tape.chance(0.3, "req+event"):
                ev = ("EV", self.step_no, stmt.id)
                self.expected_events.append(ev)
            form = tape.draw(5, "reqform")
            if form == 0:
                return (ev, ids)
            if form == 1:
                return (ev, tuple(ids))
            if form == 3:
                # any iterable is a valid request, also one that can be walked only once
                return (ev, iter(ids))
            if form == 4:
                return (ev, (i for i in ids))
            return (ev, OrdFS(ids, self.chooser, "req"))


class SimTarget:
    """One controller may be handed different target objects over its life; each step belongs to the target
    it was started with."""

    def __init__(self, mon, tag=0):
        self._mon = mon
        self._tag = tag

    def _mine(self, what, stmt):
        if self._mon.cur_target is not None and self._mon.cur_target != self._tag:
            self._mon.viol("wrong-target", "%s(%r) arrived at target %d, the step was started with target %d"
                           % (what, stmt.id, self._tag, self._mon.cur_target))

    def evaluate_condition(self, stmt):
        self._mine("evaluate_condition", stmt)
        return self._mon.on_cond(stmt)

    def __getattr__(self, name):
        if name.startswith("exec_"):
            mon = self._mon

            def call(stmt):
                self._mine(name, stmt)
                return mon.on_exec(name, stmt)
            return call
        raise AttributeError(name)


_NOASSERT = [None]


def _controller_without_asserts():
    """dagrt.language compiled the way `python -O` compiles it (no assert statements), as a second module
    object; its ExecutionController works on the ordinary statement and phase objects."""
    if _NOASSERT[0] is None:
        import types
        import dagrt.language as real
        with open(real.__file__) as f:
            src = f.read()
        mod = types.ModuleType("dagrt.language")
        mod.__file__ = real.__file__
        mod.__package__ = "dagrt"
        exec(compile(src, real.__file__, "exec", optimize=1), mod.__dict__)
        _NOASSERT[0] = mod.ExecutionController
    return _NOASSERT[0]


def make_sim_interp(code, mon):
    class SimInterp(NumpyInterpreter):
        def evaluate_condition(self, stmt):
            return mon.on_cond(stmt)

    for k in KINDS + ["AssignImplicit"]:
        def mk(name):
            return lambda self, stmt: mon.on_exec(name, stmt)
        setattr(SimInterp, "exec_" + k, mk("exec_" + k))
    return SimInterp(code, {})


def guard_value(cond, store):
    """Independent evaluation of a builder-made guard (flag / not flag / conjunction)."""
    from pymbolic.primitives import LogicalAnd, LogicalNot, Variable
    if cond is True or cond is False:
        return cond
    if isinstance(cond, Variable):
        if cond.name not in store:
            raise KeyError(cond.name)
        return bool(store[cond.name])
    if isinstance(cond, LogicalNot):
        return not guard_value(cond.child, store)
    if isinstance(cond, LogicalAnd):
        return all(guard_value(c, store) for c in cond.children)
    raise KeyError("unsupported")


def run_c04_real(ctx):
    """Real evaluation mode: builder programs on the real NumpyInterpreter (real guards, real
    exec_*), simulator-owned iteration orders; V1-V3 plus guard faithfulness."""
    import numpy as np
    import warnings
    from simdag.gen.script import ScriptGen, apply_script
    from simdag.gen.script import ERRORS
    warnings.filterwarnings("ignore")
    np.seterr(all="ignore")
    tape = ctx.tape
    gen = ScriptGen(tape, max_ops=[4, 8, 12][tape.draw(3, "max_ops")], max_phases=3, max_depth=2)
    sc = gen.gen()
    try:
        ap = apply_script(sc)
    except Exception:
        from simdag.core.outcome import Discard
        raise Discard("builder-exception")
    chooser = TapeChooser(tape, ctx.log, counter=lambda site: ctx.count("fault:perm_" + site.split(":")[0]))
    phases = {}
    info = {}
    for ph in sc.phases:
        stmts = [st.copy() for st in ap.builders[ph.name].statements]
        for st in stmts:
            st.depends_on = OrdFS(st.depends_on, chooser, "deps:" + st.id)
        if stmts and tape.chance(0.3, "handwritten_nop"):
            # a hand-written no-op that joins some statements (as in test_basic_conditional_codegen)
            deps_n = [st.id for st in stmts if tape.chance(0.4, "nopdep")]
            nop = Nop(id="join_%s" % ph.name, depends_on=deps_n)
            nop.depends_on = OrdFS(nop.depends_on, chooser, "deps:" + nop.id)
            stmts.append(nop)
            ctx.count("probe:real_mode_nop")
        storage = [stmts[i] for i in tape.perm(len(stmts), "storage")]
        phases[ph.name] = make_phase(tape, ph.name, ph.next_phase, storage, chooser, ctx.count)
        info[ph.name] = {st.id: set(st.depends_on) for st in stmts}
    code = DAGCode(phases, sc.initial)
    state = {"visited": [], "pending": None, "phase": None, "cut": False}
    ctx.decoded["script"] = sc.text(ap.nm)
    ctx.decoded["mode"] = "real"

    def viol(cls, detail):
        raise Violation(cls, "phase %s: %s" % (state["phase"], detail), "real")

    class LogInterp(NumpyInterpreter):
        def evaluate_condition(self, stmt):
            if state["pending"] is not None:
                viol("exec-skipped", "guard of %r was true but exec was not called" % state["pending"])
            if stmt.id in state["visited"]:
                viol("visited-twice", "%r visited twice in one step (visits so far %r)" % (stmt.id, state["visited"]))
            unmet = sorted(d for d in info[state["phase"]][stmt.id] if d not in state["visited"])
            if unmet:
                viol("dep-not-visited", "%r visited before its dependencies %r (visits so far %r)"
                     % (stmt.id, unmet, state["visited"]))
            state["visited"].append(stmt.id)
            got = NumpyInterpreter.evaluate_condition(self, stmt)
            try:
                want = guard_value(getattr(stmt, "condition", True), self.context)
            except KeyError:
                want = None
            if want is not None and bool(got) != want:
                viol("guard-unfaithful", "evaluate_condition(%r) returned %r but its guard %s is %r in the "
                     "current store" % (stmt.id, got, getattr(stmt, "condition", True), want))
            if not got:
                ctx.count("probe:real_guard_false")
            else:
                state["pending"] = stmt.id
            return got

    def mk(name):
        real = getattr(NumpyInterpreter, name)

        def wrapped(self, stmt):
            if state["pending"] != stmt.id:
                viol("exec-after-false-guard", "%s(%r) called without a true guard evaluation immediately before"
                     % (name, stmt.id))
            state["pending"] = None
            return real(self, stmt)
        return wrapped
    for k in KINDS:
        setattr(LogInterp, "exec_" + k, mk("exec_" + k))

    it = LogInterp(code, {fn: sc.func_impl(fn) for fn in sc.funcs})
    it.set_up(sc.t0, sc.dt0, {k: (v.copy() if isinstance(v, np.ndarray) else v) for k, v in sc.state0.items()})
    n_steps = 1 + tape.draw(6, "steps")
    from simdag.core.outcome import Discard
    from simdag.gen.expr import IllDefined
    from simdag.model.refstepper import RefStepper
    try:
        pre = RefStepper(sc, ap.nm)
        pre.set_up(sc.t0, sc.dt0, sc.state0)
        for _ in range(n_steps):
            if isinstance(pre.step(), tuple):
                break
    except IllDefined as e:
        raise Discard("ill-defined-horizon:" + e.reason.split(":")[-1])
    outcomes = []
    max_visits = 0
    for step in range(n_steps):
        state.update(visited=[], pending=None, phase=it.next_phase)
        cur = it.next_phase
        out = "completed"
        try:
            for _ev in it.run_single_step():
                pass
        except FailStepException:
            out = "failed"
        except TransitionEvent as e:
            it.next_phase = e.next_phase
            out = "switched"
        except Violation:
            raise
        except Exception as e:
            import traceback
            tb = traceback.extract_tb(e.__traceback__)
            where = [f.name for f in tb if "/dagrt/" in f.filename]
            if type(e) in ERRORS.values() and where and where[-1] == "exec_Raise":
                out = "raised"
            else:
                # the reference stepper ran these very steps without a problem: the program is well
                # defined, so this is the interpreter's doing
                raise Violation("interpreter-exception:" + type(e).__name__,
                                "phase %s, visits %r: %r" % (state["phase"], state["visited"], e),
                                site=where[-1] if where else "real")
        outcomes.append(out)
        if out == "raised":
            break
        max_visits = max(max_visits, len(state["visited"]))
        if out == "completed":
            missing = sorted(set(info[cur]) - set(state["visited"]))
            if missing:
                viol("not-visited", "step ended without visiting %r (visited %r)" % (missing, state["visited"]))
            if state["pending"] is not None:
                viol("exec-skipped", "guard of %r was true but exec was never called" % state["pending"])
        else:
            ctx.count("probe:cutoff_then_step")
            ctx.count("fault:cutoff_" + out)
    ctx.count("mode:real")
    ctx.count("sum:steps", n_steps)
    ctx.nontrivial = max_visits >= 2
    ctx.dkey("real", sc.shape_sig, outcomes)
    ctx.sample = {"mode": "real", "script": ctx.decoded["script"][:10], "step_outcomes": outcomes}


def run_c04(ctx):
    tape = ctx.tape
    max_n = 40 if ctx.thorough else 12
    with tape.span("engine_mode"):
        if tape.chance(0.2, "real"):
            return run_c04_real(ctx)
    with tape.span("knobs"):
        mode = ["direct", "wired_single", "wired_run"][tape.weighted([2, 1, 1], "mode")]
        p_request = [0.0, 0.1, 0.3][tape.draw(3, "p_request")]
        p_cut = [0.0, 0.03, 0.15][tape.draw(3, "p_cut")]
        p_false = [0.0, 0.2, 0.6][tape.draw(3, "p_false")]
        n_steps = 1 + tape.draw(4, "steps")
        permute = tape.chance(0.85, "permute")
    ids, deps, shape = gen_graph(tape, max_n)
    n = len(ids)
    with tape.span("kinds"):
        kinds = [KINDS[tape.weighted([4, 2, 1, 1, 0.5, 0.5, 0.5], "kind")] for _ in range(n)]
    anc = closure(deps)

    chooser = TapeChooser(tape, ctx.log, counter=lambda site: ctx.count(
        "fault:perm_" + site.split(":")[0]), enabled=permute)
    with tape.span("literal_false"):
        lf = set(i for i in range(n) if kinds[i] != "Nop" and tape.chance(0.08, "lf"))
    stmts = [make_stmt(kinds[i], ids[i], [ids[j] for j in deps[i]], cond=(i not in lf)) for i in range(n)]
    for st in stmts:
        st.depends_on = OrdFS(st.depends_on, chooser, "deps:" + st.id)
    with tape.span("storage"):
        storage = [stmts[i] for i in tape.perm(n, "storage")] if permute else list(stmts)
    # optional second phase that reuses statement ids of the first with a different graph
    two = False
    with tape.span("second_phase"):
        if tape.chance(0.35, "two_phases"):
            two = True
            ids_q0, deps_q, _shape_q = gen_graph(tape, max(2, min(n, 8)))
            nq = len(ids_q0)
            reuse = [ids[i] for i in tape.perm(n, "idsq")][:nq]
            ids_q = [reuse[i] if i < len(reuse) else ids_q0[i] for i in range(nq)]
            if len(set(ids_q)) != nq:
                ids_q = ids_q0
            kinds_q = [KINDS[tape.weighted([4, 2, 1, 1, 0.5, 0.5, 0.5], "kindq")] for _ in range(nq)]
            stmts_q = [make_stmt(kinds_q[i], ids_q[i], [ids_q[j] for j in deps_q[i]]) for i in range(nq)]
            for st in stmts_q:
                st.depends_on = OrdFS(st.depends_on, chooser, "deps:" + st.id)
            storage_q = [stmts_q[i] for i in tape.perm(nq, "storageq")] if permute else list(stmts_q)
            next_p = ["p", "q"][tape.draw(2, "next_p")]
    with tape.span("phase_objects"):
        phase = make_phase(tape, "p", next_p if two else "p", storage, chooser, ctx.count)
        phases = {"p": phase}
        if two:
            phases["q"] = make_phase(tape, "q", "p", storage_q, chooser, ctx.count)
        ctx.count("probe:two_phases_shared_ids")
    code = DAGCode(phases, "p")

    mon = Monitor(ctx, ids, deps, kinds, anc, wired=(mode != "direct"))
    mon.literal_false = lf
    mon.phases["p"]["lf"] = lf
    mon.use_phase("p")
    if two:
        mon.add_phase("q", ids_q, deps_q, kinds_q, closure(deps_q), set())
    sinks_of = {"p": sinks(deps)}
    if two:
        sinks_of["q"] = sinks(deps_q)
    mon.mode = mode
    mon.chooser = chooser
    mon.p_request, mon.p_cut, mon.p_false = p_request, p_cut, p_false
    # a nested stepper: some callback of the observed step advances another controller of the same
    # description by a whole step (what a user function that integrates an inner problem does)
    with tape.span("inner"):
        mon.p_inner = [0.0, 0.0, 0.05, 0.25][tape.draw(4, "p_inner")]
    if mon.p_inner:
        ec_inner = ExecutionController(code)

        class Quiet:
            def evaluate_condition(self, stmt):
                return True

            def __getattr__(self, name):
                if name.startswith("exec_"):
                    return lambda stmt: None
                raise AttributeError(name)
        quiet = Quiet()

        def inner():
            ph_i = phases[sorted(phases)[tape.draw(len(phases), "innerphase")]]
            ec_inner.reset()
            ec_inner.update_plan(ph_i, ph_i.depends_on)
            for _ev in ec_inner(ph_i, quiet):
                pass
            ctx.count("probe:inner_stepper_ran_inside_a_step")
            ctx.count("fault:nested_stepper_step")
        mon.inner = inner
    ctx.decoded.update({"mode": mode, "shape": shape, "ids": ids,
                        "deps": {ids[i]: [ids[j] for j in deps[i]] for i in range(n)},
                        "kinds": dict(zip(ids, kinds)), "steps": mon.steps_decoded,
                        "storage_order": [s.id for s in storage]})
    all_sinks = sinks(deps)
    n_edges = sum(len(d) for d in deps)
    max_visits = 0
    prev_cut = False

    with tape.span("process_config"):
        # process configuration: python -O strips assert statements (and whatever they do) from dagrt's code
        EC = ExecutionController
        if tape.chance(0.2, "asserts_stripped"):
            EC = _controller_without_asserts()
            ctx.count("probe:controller_code_with_asserts_stripped")
            ctx.count("fault:python_O")
    if mode == "direct":
        ec = EC(code)
        targets = [SimTarget(mon, 0), SimTarget(mon, 1)]
        for step in range(n_steps):
            with tape.span("step"):
                ec.reset()
                mon.cur_target = tape.draw(2, "which_target") if tape.chance(0.4, "other_target") else 0
                if mon.cur_target:
                    ctx.count("probe:second_target_object")
                target = targets[mon.cur_target]
                pname = sorted(phases)[tape.draw(len(phases), "stepphase")]
                ph_obj = phases[pname]
                pn = mon.phases[pname]["n"]
                pids = mon.phases[pname]["ids"]
                if tape.chance(0.6, "allsinks"):
                    roots = list(sinks_of[pname])
                    exec_ids = ph_obj.depends_on
                else:
                    roots = [i for i in range(pn) if tape.chance(0.3, "root")] or [tape.draw(pn, "root1")]
                    exec_ids = OrdFS([pids[r] for r in roots], chooser, "roots")
                    if tape.chance(0.2, "roots_iter"):
                        exec_ids = iter(list(exec_ids))
                mon.begin_step(roots, pname)
                if prev_cut:
                    ctx.count("probe:cutoff_then_step")
                ec.update_plan(ph_obj, exec_ids)
                gen = ec(ph_obj, target)
                abandon_after = None
                if tape.chance(0.05, "abandon"):
                    abandon_after = tape.draw(3, "abandon_after")
                cut = False
                try:
                    for ev in gen:
                        mon.received_events.append(ev)
                        if abandon_after is not None and len(mon.received_events) > abandon_after:
                            gen.close()
                            cut = True
                            ctx.count("fault:cutoff_abandon")
                            break
                except (FailStepException, TransitionEvent) + tuple(FOREIGN_CLASSES) as e:
                    if e is not mon.cut:
                        mon.viol("exception-identity", "controller raised %r, target raised %r"
                                 % (e, mon.cut))
                    cut = True
                if not cut:
                    mon.end_step_complete()
                prev_cut = cut
                max_visits = max(max_visits, len(mon.visited))
    else:
        interp = make_sim_interp(code, mon)
        if EC is not ExecutionController:
            interp.exec_controller = EC(code)
        interp.set_up(0, 1, {})
        if mode == "wired_single":
            stale = None
            for step in range(n_steps):
                with tape.span("step"):
                    mon.begin_step(list(sinks_of[interp.next_phase]), interp.next_phase)
                    if prev_cut:
                        ctx.count("probe:cutoff_then_step")
                    cut = False
                    # the caller may abandon a step at any event it receives (close / drop the
                    # generator): the next step is still a full step
                    abandon = tape.chance(0.15, "abandon_wired")
                    try:
                        sgen = interp.run_single_step()
                        for ev in sgen:
                            mon.received_events.append(ev)
                            if stale is not None and tape.chance(0.5, "close_stale_here"):
                                # a step abandoned earlier was left suspended; its generator is closed only
                                # now, while this step is suspended at an event of its own
                                stale.close()
                                stale = None
                                ctx.count("probe:stale_step_closed_inside_a_later_step")
                            if abandon and tape.chance(0.5, "abandon_here"):
                                if tape.chance(0.5, "leave_suspended"):
                                    stale = sgen
                                else:
                                    sgen.close()
                                cut = True
                                ctx.count("fault:cutoff_abandon")
                                ctx.count("probe:abandon_wired")
                                break
                    except (FailStepException, TransitionEvent) + tuple(FOREIGN_CLASSES) as e:
                        if e is not mon.cut:
                            mon.viol("exception-identity", "interpreter raised %r, target raised %r"
                                     % (e, mon.cut))
                        if isinstance(e, TransitionEvent):
                            interp.next_phase = e.next_phase
                        cut = True
                    if not cut:
                        mon.end_step_complete()
                    prev_cut = cut
                    max_visits = max(max_visits, len(mon.visited))
        else:
            # interp.run(): step boundaries are StepCompleted / StepFailed events; the caller may
            # abandon run() at an event in the middle of a step and call run() again
            events = 0
            foreign = aborted = False
            segments = 0
            while True:
                segments += 1
                abandoned = False
                mon.begin_step(list(sinks_of[interp.next_phase]), interp.next_phase)
                gen = interp.run(max_steps=n_steps)
                abandon = segments <= 3 and tape.chance(0.15, "abandon_run")
                try:
                    for ev in gen:
                        events += 1
                        if isinstance(ev, (StepCompleted, StepFailed)):
                            cut = mon.cut is not None
                            if isinstance(ev, StepFailed) and not isinstance(mon.cut, FailStepException):
                                mon.viol("step-protocol", "StepFailed without a FailStep cut-off")
                            if isinstance(ev, StepCompleted) and isinstance(mon.cut, FailStepException):
                                mon.viol("step-protocol", "StepCompleted after a FailStep cut-off")
                            if not cut:
                                mon.end_step_complete()
                            max_visits = max(max_visits, len(mon.visited))
                            if cut:
                                ctx.count("probe:cutoff_then_step")
                            if events > 40 or mon.step_no > 12:
                                gen.close()
                                aborted = True
                                break
                            mon.begin_step(list(sinks_of[interp.next_phase]), interp.next_phase)
                        else:
                            mon.received_events.append(ev)
                            if abandon and tape.chance(0.5, "abandon_here"):
                                gen.close()
                                abandoned = True
                                ctx.count("fault:cutoff_abandon")
                                ctx.count("probe:abandon_wired")
                                break
                except tuple(FOREIGN_CLASSES) as e:
                    foreign = True
                    if e is not mon.cut:
                        mon.viol("exception-identity", "run() raised %r, target raised %r" % (e, mon.cut))
                if not abandoned:
                    break
            if not foreign and not aborted and mon.visited:
                mon.viol("step-protocol", "statements visited after run() reached max_steps")

    ctx.count("sum:steps", mon.step_no + 1)
    ctx.count("mode:" + mode)
    ctx.nontrivial = n_edges >= 1 and max_visits >= 2
    hist = [(s["roots"], s["visits"]) for s in mon.steps_decoded]
    ctx.dkey(sorted((ids[i], tuple(ids[j] for j in deps[i])) for i in range(n)), mode, repr(hist))
    ctx.sample = {"mode": mode, "shape": shape,
                  "deps": ctx.decoded["deps"], "steps": mon.steps_decoded[:2]}
