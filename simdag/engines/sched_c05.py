"""C05 — lowering a phase to structured code keeps order, guards and loops.

Real: create_ast_from_phase (with simplify_ast), get_statements_in_ast and the
generic walker StructuredCodeGenerator.lower_ast/lower_node/lower_inst driven
with a recording back end.  Simulated: storage order of phase.statements,
iteration order of each depends_on, insertion order of DAGCode.phases, guard
valuations (plain input, recorded for free).
"""
import itertools
import traceback

from pymbolic import var
from pymbolic.primitives import LogicalAnd, LogicalNot, Variable

from dagrt.codegen.analysis import verify_code
from dagrt.codegen.codegen_base import StructuredCodeGenerator
from dagrt.codegen.dag_ast import create_ast_from_phase, get_statements_in_ast
from dagrt.language import (Assign, AssignFunctionCall, DAGCode, ExecutionPhase, FailStep, Nop,
                            Raise, SwitchPhase, YieldState)

from simdag.core.outcome import Discard, Violation
from simdag.gen.dags import KINDS, closure, gen_graph
from simdag.gen.script import ScriptGen, apply_script
from simdag.seams.ordfs import OrdFS, TapeChooser

META = {"C05": {
    "level": "exploration",
    "quick_runs": 30000,
    "block": 50,
    "thorough_budget_s": 600,
    "rule": ("one run = one seeded phase (hand-written acyclic graph over 7 statement kinds with guards "
             "True/False/flag/negated flag/conjunction/double negation and 0..3 loops with constant, variable "
             "or outer-counter bounds, or a builder-produced phase) lowered under 2..4 storage orders "
             "(statement list order, per-set iteration order re-drawn at each iteration, phases dict "
             "order) and executed by the recording walker under 1..4 guard/bound valuations. distinct = "
             "(graph, guards, loops, valuation) hash; non-trivial = >=2 non-Nop statements joined by an "
             "edge or >=1 guarded/looped statement"),
    "real": ["dagrt.codegen.dag_ast.create_ast_from_phase", "simplify_ast (three passes)",
             "get_statements_in_ast", "StructuredCodeGenerator.lower_ast/lower_node/lower_inst",
             "dagrt.codegen.analysis.verify_code"],
    "stub": ["back end emit_* hooks (recording)", "storage/iteration orders (tape-owned)",
             "guard and loop-bound valuations"],
    "assumptions": ["guard flags are not assigned by a statement of the same hand-written phase "
                    "(static valuation); builder phases obey the single-definition rule"],
    "probes": ["all_guards_false", "merged_conditionals", "nop_skipped", "loop_inside_guard",
               "storage_order_changed", "nothing_remains", "same_object_lowered_twice"],
}}


class Rec(StructuredCodeGenerator):
    """Recording back end: the tree is consumed exactly as the code generators do."""

    def __init__(self):
        self.ops = []

    def emit_if_begin(self, expr):
        self.ops.append(("if", expr))

    def emit_if_end(self):
        self.ops.append(("endif",))

    def emit_else_begin(self):
        self.ops.append(("else",))

    def emit_for_begin(self, loop_var_name, lbound, ubound):
        self.ops.append(("for", loop_var_name, lbound, ubound))

    def emit_for_end(self, loop_var_name):
        self.ops.append(("endfor", loop_var_name))

    def emit_return(self):
        self.ops.append(("return",))

    def __getattr__(self, name):
        if name.startswith("emit_inst_"):
            return lambda inst: self.ops.append(("inst", inst))
        raise AttributeError(name)


def parse_ops(ops):
    """emit-program -> tree of ('seq', [...]) | ('if', c, then, else) | ('for', v, lo, hi, body) | ('inst', s)."""
    pos = 0

    def seq(stop):
        nonlocal pos
        items = []
        while pos < len(ops) and ops[pos][0] not in stop:
            op = ops[pos]
            pos += 1
            if op[0] == "inst":
                items.append(("inst", op[1]))
            elif op[0] == "if":
                then = seq(("else", "endif"))
                else_ = None
                if ops[pos][0] == "else":
                    pos += 1
                    else_ = seq(("endif",))
                if ops[pos][0] != "endif":
                    raise Violation("walker-structure", "unbalanced if in emitted program")
                pos += 1
                items.append(("if", op[1], then, else_))
            elif op[0] == "for":
                body = seq(("endfor",))
                if pos >= len(ops) or ops[pos][1] != op[1]:
                    raise Violation("walker-structure", "unbalanced for in emitted program")
                pos += 1
                items.append(("for", op[1], op[2], op[3], body))
            elif op[0] == "return":
                items.append(("return",))
            else:
                raise Violation("walker-structure", "unexpected %r" % (op[0],))
        return ("seq", items)
    tree = seq(())
    if pos != len(ops):
        raise Violation("walker-structure", "trailing %r in emitted program" % (ops[pos][0],))
    return tree


def ev(expr, env):
    if expr is True or expr is False:
        return expr
    if isinstance(expr, (int, float)):
        return expr
    if isinstance(expr, Variable) and expr.name in env:
        return env[expr.name]
    if isinstance(expr, LogicalNot):
        return not ev(expr.child, env)
    if isinstance(expr, LogicalAnd):
        return all(ev(c, env) for c in expr.children)
    from pymbolic.primitives import Comparison, LogicalOr
    if isinstance(expr, LogicalOr):
        return any(ev(c, env) for c in expr.children)
    if isinstance(expr, Comparison):
        import operator
        ops = {"<": operator.lt, "<=": operator.le, ">": operator.gt, ">=": operator.ge,
               "==": operator.eq, "!=": operator.ne}
        return bool(ops[expr.operator](ev(expr.left, env), ev(expr.right, env)))
    from pymbolic.mapper.evaluator import EvaluationMapper
    try:
        v = EvaluationMapper(env)(expr)
        if isinstance(v, int) and not isinstance(v, bool):
            return v
    except Exception:
        pass
    # builder-made bounds (len(a), n, ...) cannot be evaluated statically: give every
    # distinct bound expression a fixed small value (the same on both sides of the check)
    from simdag.core.tape import derive_seed
    return derive_seed(str(expr)) % 3


def execute(tree, env, trace, loopenv):
    k = tree[0]
    if k == "seq":
        for it in tree[1]:
            if execute(it, env, trace, loopenv) == "return":
                return "return"
    elif k == "inst":
        trace.append((tree[1].id, frozenset(loopenv.items())))
    elif k == "if":
        if ev(tree[1], dict(env, **loopenv)):
            return execute(tree[2], env, trace, loopenv)
        elif tree[3] is not None:
            return execute(tree[3], env, trace, loopenv)
    elif k == "for":
        e2 = dict(env, **loopenv)
        lo, hi = ev(tree[2], e2), ev(tree[3], e2)
        if tree[1] in loopenv:
            raise Violation("loops-mismatch", "loop variable %s nested inside itself" % tree[1])
        for i in range(lo, hi):
            loopenv[tree[1]] = i
            execute(tree[4], env, trace, loopenv)
        loopenv.pop(tree[1], None)
    elif k == "return":
        return "return"


def serial(tree):
    k = tree[0]
    if k == "seq":
        return ["seq"] + [serial(t) for t in tree[1]]
    if k == "inst":
        s = tree[1]
        return ["inst", s.id, type(s).__name__, str(s)]
    if k == "if":
        return ["if", str(tree[1]), serial(tree[2]), serial(tree[3]) if tree[3] is not None else None]
    if k == "for":
        return ["for", tree[1], str(tree[2]), str(tree[3]), serial(tree[4])]
    return [k]


FLAGS = ["<cond>f0", "<cond>f1", "<cond>f2"]
BOUNDS = ["nb", "mb"]


def gen_guard(tape):
    k = tape.weighted([5, 0.7, 3, 2, 1.5, 0.5, 0.5, 1.0, 0.6, 0.8, 1.2], "guard")
    if k == 9:
        # a guard over a name that is also (one of) the statement's own loop variable(s): it is evaluated
        # once, before the loops, with the value the name has outside them
        from pymbolic.primitives import Comparison
        return Comparison(Variable(["i", "j"][tape.draw(2, "gl")]), [">", "<=", "=="][tape.draw(3, "glop")],
                          [1, 0, 2][tape.draw(3, "glc")])
    if k == 10:
        # comparisons with constants; few distinct forms, so neighbours often differ in the constant only
        # (and -1 / -2 have the same hash)
        from pymbolic.primitives import Comparison
        return Comparison(Variable(["e0", "e1"][tape.draw(2, "kl")]), ["<", ">="][tape.draw(2, "kop")],
                          [-1, -2][tape.draw(2, "kc")])
    if k == 8:
        # negations of a literal (what is left when a flag in a guard is replaced by a constant)
        g = [True, False][tape.draw(2, "neglit")]
        for _ in range(1 + tape.draw(3, "nneg")):
            g = LogicalNot(g)
        return g
    if k == 7:
        # comparison guards over real-valued inputs (which may be NaN), plain or negated
        from pymbolic.primitives import Comparison
        c = Comparison(Variable(["e0", "e1"][tape.draw(2, "cl")]), ["<", "<=", ">", ">=", "==", "!="][tape.draw(6, "cop")],
                       Variable(["e1", "e0"][tape.draw(2, "cr")]))
        return LogicalNot(c) if tape.chance(0.6, "cneg") else c
    if k == 0:
        return True
    if k == 1:
        return False
    f = Variable(FLAGS[tape.draw(3, "flag")])
    if k == 2:
        return f
    if k == 3:
        return LogicalNot(f)
    g = Variable(FLAGS[tape.draw(3, "flag2")])
    if k == 4:
        return LogicalAnd((f, LogicalNot(g) if tape.draw(2) else g))
    if k == 5:
        return LogicalNot(LogicalNot(f))
    return LogicalAnd((LogicalNot(f), g, Variable(FLAGS[tape.draw(3, "flag3")])))


def gen_loops(tape):
    n = tape.weighted([5, 2, 1, 0.5], "nloops")
    loops = []
    names = ["i", "j", "k"]
    for li in range(n):
        lo = [0, 1, var("nb"), -2, -3][tape.weighted([4, 1, 1, 0.7, 0.4], "lo")]
        hi = [2, 3, 0, var("mb"), None, -1][tape.weighted([3, 2, 1, 2, 1 if li > 0 else 0, 0.5], "hi")]
        if hi is None:
            hi = var(names[li - 1]) + 1
        loops.append((names[li], lo, hi))
    return loops


def make_stmt(kind, sid, deps, guard, loops, idx):
    common = dict(id=sid, depends_on=deps)
    if kind == "Nop":
        return Nop(**common)
    common["condition"] = guard
    if kind == "Assign":
        return Assign(assignee="x%d" % idx, assignee_subscript=(), expression=var("y") + idx,
                      loops=loops, **common)
    if kind == "YieldState":
        return YieldState(time=0, time_id="tid", expression=var("x%d" % idx), component_id="c", **common)
    if kind == "AssignFunctionCall":
        return AssignFunctionCall(assignees=("x%d" % idx,), function_id="<func>f", parameters=(idx,), **common)
    if kind == "FailStep":
        return FailStep(**common)
    if kind == "SwitchPhase":
        return SwitchPhase(next_phase="p", **common)
    return Raise(ValueError, "m", **common)


def expected_instances(st, env):
    """set of iteration vectors (frozenset of (var, value)) of a statement whose guard holds."""
    loops = getattr(st, "loops", None) or []
    out = []

    def rec(li, loopenv):
        if li == len(loops):
            out.append(frozenset(loopenv.items()))
            return
        name, lo, hi = loops[li]
        e2 = dict(env, **loopenv)
        for v in range(ev(lo, e2), ev(hi, e2)):
            loopenv[name] = v
            rec(li + 1, loopenv)
        loopenv.pop(name, None)
    rec(0, {})
    return out


def lower_once(ctx, stmts, tape, chooser, extra_phases, permute):
    n = len(stmts)
    storage = [stmts[i] for i in tape.perm(n, "storage")] if permute else list(stmts)
    copies = []
    for st in storage:
        c = st.copy()
        c.depends_on = OrdFS(st.depends_on, chooser if permute else None, "deps:" + str(st.id))
        copies.append(c)
    phases = {}
    names = ["p"] + extra_phases
    order = [names[i] for i in tape.perm(len(names), "phaseorder")] if permute else names
    for nm in order:
        if nm == "p":
            phases[nm] = ExecutionPhase("p", "p", copies)
        else:
            phases[nm] = ExecutionPhase(nm, "p", [Assign(id="only", depends_on=[], assignee="z",
                                                          assignee_subscript=(), expression=1)])
    code = DAGCode(phases, "p")
    try:
        verify_code(code)
    except Exception as e:
        raise Discard("verify-rejects:" + type(e).__name__)
    try:
        ast = create_ast_from_phase(code, "p")
        rec = Rec()
        rec.lower_ast(ast)
        linear = [s.id for s in get_statements_in_ast(ast)]
    except Violation:
        raise
    except Exception as e:
        tb = traceback.extract_tb(e.__traceback__)
        where = [f.name for f in tb if "/dagrt/" in f.filename]
        raise Violation("lowering-exception:" + type(e).__name__,
                        "lowering a phase that verify_code accepts raised %r in %s\nstatements: %s"
                        % (e, where[-1] if where else "?", ["%s: %s <- %s" % (s.id, s, sorted(s.depends_on))
                                                           for s in stmts]),
                        site=where[-1] if where else "")
    tree = parse_ops(rec.ops)
    if tape.chance(0.3, "lower_again"):
        # the same description object is lowered once per back end: a second lowering must see
        # the same phase
        ctx.count("probe:same_object_lowered_twice")
        try:
            ast2 = create_ast_from_phase(code, "p")
            rec2 = Rec()
            rec2.lower_ast(ast2)
            linear2 = [s.id for s in get_statements_in_ast(ast2)]
            tree2 = parse_ops(rec2.ops)
        except Violation:
            raise
        except Exception as e:
            raise Violation("relowering-differs", "lowering the same phase object a second time raised %r" % (e,),
                            site="exception")
        if serial(tree2) != serial(tree) or linear2 != linear:
            raise Violation("relowering-differs", "lowering the same phase object a second time gives another "
                            "program: %r, first %r" % (serial(tree2), serial(tree)), site="second")
    return tree, linear, [s.id for s in storage]


def run_c05(ctx):
    tape = ctx.tape
    max_n = 24 if ctx.thorough else 10
    with tape.span("knobs"):
        source = ["hand", "builder"][tape.weighted([3, 1], "source")]
        n_orders = 2 + tape.draw(3, "norders")
        n_vals = 1 + tape.draw(4, "nvals")
    if source == "hand":
        ids, deps, shape = gen_graph(tape, max_n)
        n = len(ids)
        with tape.span("stmts"):
            stmts = []
            for i in range(n):
                kind = KINDS[tape.weighted([5, 1.5, 1.5, 1.5, 0.4, 0.4, 0.4], "kind")]
                guard = gen_guard(tape)
                loops = gen_loops(tape) if kind == "Assign" else []
                stmts.append(make_stmt(kind, ids[i], [ids[j] for j in deps[i]], guard, loops, i))
    else:
        gen = ScriptGen(tape, max_ops=8, max_phases=1, max_depth=2)
        sc = gen.gen()
        try:
            ap = apply_script(sc)
        except Exception:
            raise Discard("builder-exception")
        stmts = list(ap.builders[sc.phases[0].name].statements)
        stmts = [s.copy(next_phase="p") if isinstance(s, SwitchPhase) else s for s in stmts]
        ids = [s.id for s in stmts]
        pos = {s: i for i, s in enumerate(ids)}
        deps = [sorted(pos[d] for d in s.depends_on) for s in stmts]
        n = len(stmts)
        shape = "builder"
    if n == 0:
        raise Discard("empty-phase")
    anc = closure(deps)
    ctx.decoded.update({"source": source, "shape": shape,
                        "statements": ["%s: %s%s  <- %s" % (s.id, type(s).__name__ + " " + str(s), "",
                                                           sorted(s.depends_on)) for s in stmts]})
    chooser = TapeChooser(tape, ctx.log, counter=lambda site: ctx.count("fault:perm_" + site.split(":")[0]))
    # flags and bound variables occurring anywhere
    names = set()
    for s in stmts:
        names |= set(s.get_read_variables()) if not isinstance(s, Nop) else set()
    flag_names = sorted(x for x in names if x.startswith("<cond>"))
    results = []
    for oi in range(n_orders):
        with tape.span("order"):
            extra = ["q", "a_first"][:tape.draw(3, "extra")]
            tree, linear, storage = lower_once(ctx, stmts, tape, chooser, extra, permute=(oi > 0))
            results.append((serial(tree), linear, storage, tree))
    base_serial, base_linear, base_storage, base_tree = results[0]
    for oi, (ser, lin, storage, _t) in enumerate(results[1:], 1):
        if storage != base_storage:
            ctx.count("probe:storage_order_changed")
        if ser != base_serial or lin != base_linear:
            raise Violation("storage-order-dependent",
                            "lowering differs between storage order %r and %r: statement order %r vs %r"
                            % (base_storage, storage, base_linear, lin), site="order")
    # leaves: no loops, condition True, each non-Nop statement present
    leaves = []

    def collect(t):
        if t[0] == "seq":
            for x in t[1]:
                collect(x)
        elif t[0] == "inst":
            leaves.append(t[1])
        elif t[0] == "if":
            collect(t[2])
            if t[3] is not None:
                collect(t[3])
        elif t[0] == "for":
            collect(t[4])
    collect(base_tree)
    for lf in leaves:
        if getattr(lf, "condition", True) is not True or getattr(lf, "loops", None):
            raise Violation("leaf-unguarded", "emitted leaf %s still carries condition %s / loops %r"
                            % (lf.id, getattr(lf, "condition", True), getattr(lf, "loops", None)), site="leaf")
        if isinstance(lf, Nop):
            raise Violation("nop-emitted", "Nop %s was emitted" % lf.id, site="leaf")
    if [lf.id for lf in leaves] != base_linear:
        raise Violation("walker-structure", "walker leaves %r differ from get_statements_in_ast %r"
                        % ([lf.id for lf in leaves], base_linear))
    if any(isinstance(s, Nop) for s in stmts):
        ctx.count("probe:nop_skipped")
    if not leaves:
        ctx.count("probe:nothing_remains")
    n_if = str(base_serial).count("'if'")
    n_guarded = sum(1 for s in stmts if getattr(s, "condition", True) not in (True, False))
    if n_if < n_guarded:
        ctx.count("probe:merged_conditionals")
    # valuations
    by_id = {s.id: (i, s) for i, s in enumerate(stmts)}
    for vi in range(n_vals):
        with tape.span("valuation"):
            env = {f: bool(tape.draw(2, "fv")) for f in flag_names}
            for f in FLAGS:
                env.setdefault(f, bool(tape.draw(2, "fv")))
            env["nb"] = tape.draw(3, "nb")
            env["mb"] = tape.draw(4, "mb")
            env["e0"] = [0.0, 1.0, float("nan"), -1.5][tape.draw(4, "e0")]
            env["e1"] = [1.0, 0.0, float("nan"), -1.5][tape.draw(4, "e1")]
            env["i"] = [5, 0, 2][tape.draw(3, "outer_i")]
            env["j"] = [1, 3][tape.draw(2, "outer_j")]
        trace = []
        execute(base_tree, env, trace, {})
        # L1/L2
        got = {}
        for sid, vec in trace:
            got.setdefault(sid, []).append(vec)
        any_true = False
        for s in stmts:
            if isinstance(s, Nop):
                want = []
            else:
                g = ev(s.condition, env)
                want = expected_instances(s, env) if g else []
                any_true = any_true or bool(g)
            have = got.get(s.id, [])
            if sorted(map(sorted, have)) != sorted(map(sorted, want)):
                w, h = len(want), len(have)
                cls = ("leaf-missing" if h < w else "leaf-duplicated" if h > w else "loops-mismatch")
                if h and not w and not isinstance(s, Nop) and not ev(s.condition, env):
                    cls = "leaf-unguarded"
                raise Violation(cls, "under %r statement %s (%s) ran for iteration vectors %r, declared %r"
                                % ({k: v for k, v in env.items() if k in flag_names or k in ("nb", "mb", "e0", "e1")},
                                   s.id, s, [dict(x) for x in have], [dict(x) for x in want]),
                                site=type(s).__name__)
            if want and getattr(s, "loops", None) and s.condition is not True:
                ctx.count("probe:loop_inside_guard")
        if not any_true:
            ctx.count("probe:all_guards_false")
        # L3 order
        first = {}
        last = {}
        for pos_, (sid, _vec) in enumerate(trace):
            first.setdefault(sid, pos_)
            last[sid] = pos_
        for b_id in first:
            bi = by_id[b_id][0]
            for ai in anc[bi]:
                a_id = stmts[ai].id
                if a_id in last and last[a_id] > first[b_id]:
                    raise Violation("order", "under %r statement %s runs before its (transitive) dependency %s: "
                                    "trace %r" % ({k: v for k, v in env.items() if k in flag_names}, b_id, a_id,
                                                  [t[0] for t in trace]), site="order")
        ctx.dkey(sorted(env.items()))
    n_edges = sum(len(d) for d in deps)
    ctx.nontrivial = (n_edges >= 1 and len(leaves) >= 2) or n_guarded >= 1
    ctx.dkey([(type(s).__name__, str(getattr(s, "condition", None)), str(getattr(s, "loops", None)),
               tuple(sorted(s.depends_on)), s.id) for s in stmts])
    ctx.log.add("c05", base_linear)
    ctx.sample = {"source": source, "statements": ctx.decoded["statements"][:8],
                  "lowered_order": base_linear[:12], "orders": n_orders, "valuations": n_vals}
