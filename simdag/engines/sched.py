"""C02 — recorded dependencies make every admissible schedule equal to program order.

Real: CodeBuilder (dependency recording, if_/else_, fresh names), statement
read/write sets, NumpyInterpreter.evaluate_condition / exec_* / EvaluationMapper.
Simulated: the scheduler (any linear extension of the recorded graph), the
variable store (recording dict), initial stores, pure user functions.
"""
import traceback

import numpy as np
from pymbolic.primitives import LogicalAnd, LogicalNot, Variable

from dagrt.exec_numpy import FailStepException, NumpyInterpreter, TransitionEvent
from dagrt.language import (Assign, AssignFunctionCall, DAGCode, ExecutionPhase, Raise)

from simdag.core.outcome import Discard, Violation
from simdag.gen.script import COUNTERS, FUNCS, ScriptGen, apply_script
from simdag.model.refstepper import is_persistent, same_value
from simdag.seams.store import RecStore, copy_store

META = {"C02": {
    "level": "exploration",
    "quick_runs": 20000,
    "block": 25,
    "thorough_budget_s": 900,
    "rule": ("one run = one seeded builder script applied to a real CodeBuilder; per phase the written-order "
             "history H0 is executed through the real exec_* on a recording store, structural checks G1/G4 and "
             "the happens-before race check G2/G3 are evaluated on the recorded accesses, and K sampled + all "
             "directed (race-candidate) linear extensions x 1..3 initial stores are executed and compared "
             "with H0 (events, terminator, final values). distinct = (phase shape, schedule) hash over all "
             "executed schedules different from written order; non-trivial = a phase with >=2 statements "
             "joined by an edge and >=1 executed schedule that differs from written order"),
    "real": ["CodeBuilder._add_statement/if_/else_/fresh_var_name", "get_read_variables/get_written_variables",
             "NumpyInterpreter.evaluate_condition/exec_*", "dagrt.expression.EvaluationMapper"],
    "stub": ["scheduler (simulator picks every linear extension)", "variable store (recording dict)",
             "user functions (pure library)"],
    "assumptions": ["written program well defined in written order (H0 reads no unassigned variable); "
                    "user functions pure; call order across schedules not compared",
                    "after a step-ending statement only events, terminator and persistent variables are "
                    "compared (temporaries are discarded at step end)"],
    "probes": ["guard_flipped_by_store", "terminated_schedules", "loop_statement_reordered",
               "programs_with_implicit_solves"],
}}


class Terminated(Exception):
    pass


class _Overlay(dict):
    """the unknowns of an implicit solve bound on top of the (recording) variable store"""

    def __init__(self, base, bound):
        dict.__init__(self)
        self.base, self.bound = base, bound

    def __getitem__(self, k):
        return self.bound[k] if k in self.bound else self.base[k]

    def get(self, k, default=None):
        return self.bound[k] if k in self.bound else self.base.get(k, default)

    def __contains__(self, k):
        return k in self.bound or k in self.base


class SolverInterp(NumpyInterpreter):
    """The stock interpreter has no solver.  The simulated environment's solver does one evaluation of
    each equation with the unknowns bound to the starting guess: it reads exactly what a real solver must
    read (the equations' other variables, the guess) and writes the assignees."""

    def exec_AssignImplicit(self, stmt):
        from dagrt.expression import EvaluationMapper
        guess = self.eval_mapper(stmt.other_params["guess"])
        bound = {name: guess for name in stmt.solve_variables}
        ev = EvaluationMapper(_Overlay(self.context, bound), self.eval_mapper.functions)
        for assignee, expr in zip(stmt.assignees, stmt.expressions):
            self.context[assignee] = ev(expr)


class Exec:
    """Executes statements of one phase in a given order through the real interpreter."""

    def __init__(self, stmts, sc):
        self.stmts = stmts
        phase = ExecutionPhase("p", "p", list(stmts))
        code = DAGCode({"p": phase}, "p")
        self.interp = SolverInterp(code, {fn: sc.func_impl(fn) for fn in sc.funcs})

    def run(self, order, store0, record=False):
        """Returns dict(events, term, store, acc) ; acc[i] = (reads, writes) when record."""
        store = RecStore(copy_store(store0))
        it = self.interp
        it.context = store
        it.eval_mapper.context = store
        events = []
        term = None
        acc = {}
        executed = []
        for i in order:
            st = self.stmts[i]
            store.begin()
            fp0 = store.array_fingerprint() if record else None
            guard = None
            try:
                guard = it.evaluate_condition(st)
                if guard:
                    res = getattr(it, st.exec_method)(st)
                    if res is not None:
                        ev, _new = res
                        if ev is not None:
                            v = ev.state_component
                            events.append((i, ev.t, ev.time_id, ev.component_id,
                                           v.copy() if isinstance(v, np.ndarray) else v))
            except Discard:
                raise
            except FailStepException:
                term = ("fail",)
            except TransitionEvent as e:
                term = ("switch", e.next_phase)
            except Exception as e:
                if isinstance(st, Raise) and type(e) is st.error_condition:
                    term = ("raise", type(e).__name__)
                else:
                    tb = traceback.extract_tb(e.__traceback__)
                    where = [f.name for f in tb if "/dagrt/" in f.filename]
                    term = ("exception", type(e).__name__, where[-1] if where else "?", repr(e)[:200])
            if record:
                w = set(store.w)
                fp1 = store.array_fingerprint()
                for k, b in fp1.items():
                    if fp0.get(k) != b and k in fp0:
                        w.add(k)
                if isinstance(st, Assign) and st.assignee_subscript:
                    w.add(st.assignee)
                acc[i] = (set(store.r) | set(store.missing), w, set(store.d),
                          None if guard is None else bool(guard), set(store.missing))
            executed.append(i)
            if term is not None:
                break
        final = copy_store(store)
        return {"events": events, "term": term, "store": final, "acc": acc, "executed": executed}


def cond_guards(cond):
    """Decode a builder-made condition into [(flag, negated), ...] or None."""
    def one(c):
        if isinstance(c, Variable):
            return (c.name, False)
        if isinstance(c, LogicalNot) and isinstance(c.child, Variable):
            return (c.child.name, True)
        return None
    if cond is True:
        return []
    if isinstance(cond, LogicalAnd):
        out = [one(c) for c in cond.children]
        return None if any(o is None for o in out) else out
    o = one(cond)
    return None if o is None else [o]


def ancestors(deps_idx):
    n = len(deps_idx)
    anc = [set() for _ in range(n)]
    for i in range(n):
        for j in deps_idx[i]:
            anc[i].add(j)
            anc[i] |= anc[j]
    return anc


def random_extension(tape, deps_idx, strategy):
    n = len(deps_idx)
    indeg = [len(d) for d in deps_idx]
    children = [[] for _ in range(n)]
    for i, d in enumerate(deps_idx):
        for j in d:
            children[j].append(i)
    ready = [i for i in range(n) if indeg[i] == 0]
    order = []
    prio = None
    if strategy == "pct":
        prio = [tape.draw(1000, "prio") for _ in range(n)]
    while ready:
        ready.sort()
        if strategy == "latest":
            k = len(ready) - 1
        elif strategy == "earliest":
            k = 0
        elif strategy == "pct":
            k = max(range(len(ready)), key=lambda x: (prio[ready[x]], ready[x]))
        else:
            k = tape.draw(len(ready), "pick")
        i = ready.pop(k)
        order.append(i)
        for c in children[i]:
            indeg[c] -= 1
            if indeg[c] == 0:
                ready.append(c)
    return order


def directed_extension(anc, n, i, j):
    """j (and its ancestors) as early as possible, everything else in written order."""
    first = sorted(anc[j]) + [j]
    s = set(first)
    return first + [k for k in range(n) if k not in s]


def compare(h0, h, where, stmts):
    ids = [s.id for s in stmts]
    e0 = [(ids[e[0]],) + tuple(e[1:]) for e in h0["events"]]
    e1 = [(ids[e[0]],) + tuple(e[1:]) for e in h["events"]]
    if h["term"] is not None and h["term"][0] == "exception" and (
            h0["term"] is None or h0["term"][0] != "exception"):
        raise Violation("schedule-divergence:exception",
                        "%s: %s in %s: %s; written order ends with %r"
                        % (where, h["term"][1], h["term"][2], h["term"][3], h0["term"]),
                        site=h["term"][1])
    if len(e0) != len(e1) or any(
            a[0] != b[0] or a[2:4] != b[2:4] or not same_value(a[1], b[1]) or not same_value(a[4], b[4])
            for a, b in zip(e0, e1)):
        raise Violation("schedule-divergence:events",
                        "%s: events %r; written order gives %r" % (where, _ev(e1), _ev(e0)))
    if h0["term"] != h["term"]:
        raise Violation("schedule-divergence:terminator",
                        "%s: step ends with %r; written order ends with %r" % (where, h["term"], h0["term"]))
    s0, s1 = h0["store"], h["store"]
    keys = sorted(set(s0) | set(s1))
    if h0["term"] is not None:
        keys = [k for k in keys if is_persistent(k)]
    for k in keys:
        if k in COUNTERS:
            continue
        if k not in s0 or k not in s1 or not same_value(s0[k], s1[k]):
            raise Violation("schedule-divergence:store",
                            "%s: final %s = %s; written order gives %s"
                            % (where, k, _sv(s1.get(k, "<unset>")), _sv(s0.get(k, "<unset>"))),
                            site="persistent" if is_persistent(k) else ("flag" if k.startswith("<cond>") else "temp"))


def _sv(v):
    return v.tolist() if isinstance(v, np.ndarray) else v


def _ev(evs):
    return [(e[0], _sv(e[1]), e[2], e[3], _sv(e[4])) for e in evs]


def make_stores(tape, sc, n):
    """Initial stores: the script's own state plus perturbed variants."""
    base = {"<t>": sc.t0, "<dt>": sc.dt0}
    for k, v in sc.state0.items():
        base["<state>" + k] = v
    for name, ty in sorted(sc.types.items()):
        if name.startswith("<p>"):
            base[name] = 2 if ty == "int" else 1.5
    stores = [base]
    for _ in range(n - 1):
        s = copy_store(base)
        for k in sorted(s):
            if tape.chance(0.5, "perturb"):
                v = s[k]
                delta = [1, -1, 2, 0.5, -3][tape.draw(5, "delta")]
                if isinstance(v, np.ndarray):
                    s[k] = v + delta
                elif isinstance(v, int) and not isinstance(v, bool):
                    s[k] = v + int(delta * 2)
                else:
                    s[k] = v + delta
        stores.append(s)
    return stores


def structural_checks(ctx, ph, stmts, ap, anc):
    name = ph.name
    ids = [s.id for s in stmts]
    if len(set(ids)) != len(ids):
        raise Violation("ids-not-unique", "phase %s: statement ids %r" % (name, ids))
    pos = {s: i for i, s in enumerate(ids)}
    for i, st in enumerate(stmts):
        for d in st.depends_on:
            if d not in pos:
                raise Violation("edge-dangling", "phase %s: %s depends on unknown %r" % (name, st.id, d))
            if pos[d] >= i:
                raise Violation("edge-forward", "phase %s: %s depends on later statement %s"
                                % (name, st.id, d))
    # guards: each statement carries exactly the flags of the enclosing if_/else_ blocks
    for i, st in enumerate(stmts):
        want = ap.guards.get((name, i))
        got = cond_guards(st.condition)
        if want is not None and got != want:
            raise Violation("else-guard" if want and got and [g[0] for g in got] == [w[0] for w in want]
                            else "guard-structure",
                            "phase %s: %s has condition %s, enclosing blocks require %r"
                            % (name, st.id, st.condition, want), site="guard")
    # each flag assigned exactly once
    for flag in ap.flags.get(name, []):
        writers = [s.id for s in stmts if flag in s.get_written_variables()]
        if len(writers) != 1:
            raise Violation("flag-reassigned", "phase %s: flag %s written by %r" % (name, flag, writers))
    # G4 fresh names
    seen_fresh = set()
    user_vars_before = {}
    for (pname, before, actual) in ap.fresh_log:
        if pname != name:
            continue
        used = set()
        for st in stmts[:before]:
            used |= set(st.get_read_variables()) | set(st.get_written_variables())
        if actual in used or actual in seen_fresh:
            raise Violation("fresh-name-collision",
                            "phase %s: fresh_var_name returned %r which is %s"
                            % (name, actual, "already used by earlier statements" if actual in used
                               else "a name it returned before"), site="fresh")
        seen_fresh.add(actual)
    flags = ap.flags.get(name, [])
    if len(set(flags)) != len(flags) or any(f in seen_fresh for f in flags):
        raise Violation("fresh-name-collision", "phase %s: if_ flags %r collide" % (name, flags), site="flag")


def run_c02(ctx):
    tape = ctx.tape
    with tape.span("knobs"):
        max_ops = [4, 8, 12][tape.draw(3, "max_ops")] if not ctx.thorough else [6, 10, 16][tape.draw(3, "max_ops")]
        n_stores = 1 + tape.draw(3, "nstores")
        K = (2 + tape.draw(4, "K")) if not ctx.thorough else (8 + tape.draw(24, "K"))
    with tape.span("implicit"):
        implicit = tape.chance(0.35, "implicit")
    if implicit:
        ctx.count("probe:programs_with_implicit_solves")
    gen = ScriptGen(tape, max_ops=max_ops, max_phases=2, max_depth=2, implicit=implicit)
    sc = gen.gen()
    try:
        ap = apply_script(sc)
    except Exception as e:
        tb = traceback.extract_tb(e.__traceback__)
        where = [f.name for f in tb if "/dagrt/" in f.filename]
        raise Violation("builder-exception:" + type(e).__name__,
                        "CodeBuilder rejected a valid call sequence: %r" % (e,),
                        site=(where[-1] if where else ""))
    ctx.decoded["script"] = sc.text(ap.nm)
    stores = make_stores(tape, sc, n_stores)
    nontrivial = False
    n_sched = 0
    for ph in sc.phases:
        stmts = list(ap.builders[ph.name].statements)
        n = len(stmts)
        if n == 0:
            continue
        pos = {s.id: i for i, s in enumerate(stmts)}
        ctx.decoded["phase_of_run"] = ph.name
        deps_idx = [sorted(pos[d] for d in st.depends_on if d in pos) for st in stmts]
        structural_checks(ctx, ph, stmts, ap, None)
        anc = ancestors(deps_idx)
        ex = Exec(stmts, sc)
        ctx.decoded["statements"] = ["%s: %s  <- %s" % (s.id, s, sorted(s.depends_on)) for s in stmts]
        has_edge = any(deps_idx)
        guard_sigs = set()
        for si, store0 in enumerate(stores):
            h0 = ex.run(list(range(n)), store0, record=True)
            # well-definedness of the written order
            for i in h0["executed"]:
                miss = [m for m in h0["acc"][i][4] if m not in ex.interp.functions]
                if miss:
                    raise Discard("ill-defined:read-unassigned")
            if h0["term"] is not None and h0["term"][0] == "exception":
                raise Discard("ill-defined:written-order-raises:" + h0["term"][1])
            guard_sigs.add(tuple(h0["acc"][i][3] for i in h0["executed"]))
            if h0["term"] is not None:
                ctx.count("probe:terminated_schedules")
            # ---- candidates (G2/G3)
            cands = []
            exe = h0["executed"]
            from dagrt.language import AssignImplicit
            nonassign = [not isinstance(s, (Assign, AssignFunctionCall, AssignImplicit)) for s in stmts]
            for bi, j in enumerate(exe):
                rj, wj = h0["acc"][j][0], h0["acc"][j][1] | h0["acc"][j][2]
                for i in exe[:bi]:
                    if i in anc[j]:
                        continue
                    ri, wi = h0["acc"][i][0], h0["acc"][i][1] | h0["acc"][i][2]
                    conflict = (wi & rj) | (ri & wj) | (wi & wj)
                    conflict -= set(COUNTERS)
                    pers_w_i = any(is_persistent(v) for v in h0["acc"][i][1])
                    pers_w_j = any(is_persistent(v) for v in h0["acc"][j][1])
                    if conflict or (nonassign[i] and nonassign[j]) or (pers_w_i and nonassign[j]) \
                            or (nonassign[i] and pers_w_j):
                        cands.append((i, j, sorted(conflict)))
            # statements after the terminator in written order must not be able to run before it
            if h0["term"] is not None:
                tpos = exe[-1]
                for j in range(tpos + 1, n):
                    if tpos not in anc[j] and any(is_persistent(v) for v in stmts[j].get_written_variables()) \
                            or (tpos not in anc[j] and nonassign[j]):
                        cands.append((tpos, j, ["<after-terminator>"]))
            if cands:
                # unordered conflicting pairs: none exist while the builder records every dependency
                ctx.count("probe:race_candidates", len(cands))
            where0 = "phase %s store %d" % (ph.name, si)
            tried = set()
            tried.add(tuple(range(n)))
            for (i, j, conf) in cands[:12]:
                order = directed_extension(anc, n, i, j)
                if tuple(order) in tried:
                    continue
                tried.add(tuple(order))
                ctx.count("probe:directed_schedules")
                ctx.count("fault:directed_race_schedule")
                h = ex.run(order, store0)
                n_sched += 1
                try:
                    compare(h0, h, "%s directed schedule %r (runs %s before %s, conflict on %r)"
                            % (where0, [stmts[k].id for k in order], stmts[j].id, stmts[i].id, conf), stmts)
                except Violation:
                    ctx.count("probe:race_confirmed")
                    ctx.decoded["schedule"] = [stmts[k].id for k in order]
                    ctx.decoded["store"] = {k: _sv(v) for k, v in store0.items()}
                    raise
            for k in range(K):
                with tape.span("schedule"):
                    strategy = ["random", "random", "latest", "pct", "random"][tape.draw(5, "strategy")]
                    order = random_extension(tape, deps_idx, strategy)
                if tuple(order) in tried:
                    continue
                tried.add(tuple(order))
                ctx.count("fault:random_linear_extension")
                h = ex.run(order, store0)
                n_sched += 1
                ctx.dkey(tuple(order))
                if has_edge and n >= 2:
                    nontrivial = True
                try:
                    compare(h0, h, "%s %s schedule %r" % (where0, strategy, [stmts[k].id for k in order]), stmts)
                except Violation:
                    ctx.decoded["schedule"] = [stmts[k].id for k in order]
                    ctx.decoded["store"] = {k: _sv(v) for k, v in store0.items()}
                    raise
                if any(isinstance(stmts[a], Assign) and stmts[a].loops and b < a
                       for a, b in zip(order, order[1:])):
                    ctx.count("probe:loop_statement_reordered")
        if len(guard_sigs) > 1:
            ctx.count("probe:guard_flipped_by_store")
        ctx.dkey(ph.name, [type(s).__name__ for s in stmts], [tuple(d) for d in deps_idx])
    ctx.count("sum:distinct_interleavings", n_sched)
    ctx.nontrivial = nontrivial
    ctx.log.add("c02", n_sched)
    ctx.sample = {"script": ctx.decoded["script"][:12],
                  "last_phase_statements": ctx.decoded.get("statements", [])[:10],
                  "schedules_executed": n_sched}
