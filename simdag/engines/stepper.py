"""E-step: C01 (lock-step refinement of interpreter and generated Python stepper
against the reference stepper) and C11 (user-function fault injection)."""
import traceback
import warnings

import numpy as np

from dagrt.codegen import PythonCodeGenerator
from dagrt.exec_numpy import FailStepException, NumpyInterpreter, TransitionEvent
from dagrt.language import DAGCode

from simdag.core.outcome import Discard, Violation
from simdag.gen.expr import IllDefined
from simdag.gen.script import ERRORS, FUNCS, ScriptGen, apply_script
from simdag.model.refstepper import RefStepper, is_persistent, same_value
from simdag.seams.ordfs import OrdFS, SimPhase, TapeChooser
from simdag.seams.userfuncs import FAULT_CLASSES, FuncTable

warnings.filterwarnings("ignore")
np.seterr(all="ignore")

META = {
 "C01": {
    "level": "exploration",
    "quick_runs": 16000,
    "block": 25,
    "thorough_budget_s": 900,
    "rule": ("one run = one seeded builder script (1..3 phases, feature mask over loops/variable bounds/"
             "zero-trip loops/nested if/else/3-arg if/strings vs objects/fresh vars/calls/kwargs/multi-"
             "assign/arrays/conditional expressions/fail/switch/restart/raise) + initial state + a caller "
             "history of 1..3 operations (run(max_steps), run(t_end), run(t_end,max_steps), k x "
             "run_single_step); NumpyInterpreter (dependency/sink iteration orders re-drawn from the tape "
             "at every step) and the generated Python class are driven through it and compared event by "
             "event and store by store with the reference stepper. distinct = (script op-kind shape, "
             "step outcome sequence) hash; non-trivial = >=2 steps executed and >=3 builder calls"),
    "real": ["CodeBuilder", "statement classes", "NumpyInterpreter + ExecutionController",
             "PythonCodeGenerator (verify_code, create_ast_from_phase, simplify_ast, PythonExpressionMapper, "
             "PythonNameManager, resolve_args, builtins)", "generated class executed with exec()"],
    "stub": ["caller (seeded operation history)", "user functions (pure library behind a call counter)",
             "iteration order of depends_on / sinks (tape-owned)",
             "reference stepper: independent executable model of the written program"],
    "assumptions": ["programs are well defined per DESIGN.md §3.4 (definite assignment, initialised arrays, "
                    "no aliasing, reserved loop counters, boolean conditions); ill-defined runs are discarded",
                    "numpy/CPython arithmetic is the trusted base for value equality"],
    "probes": ["step_failed", "step_switched", "step_raised", "zero_trip_loop", "else_taken",
               "failed_then_completed", "op_after_raise", "t_end_stop", "cap_abandon", "second_instance",
               "interpreter_after_codegen_on_same_objects", "builder_extended_after_phase_snapshot",
               "generator_object_reused"],
 },
 "C11": {
    "level": "fault_enumeration",
    "quick_runs": 8000,
    "block": 20,
    "thorough_budget_s": 900,
    "rule": ("one run = one seeded builder script with user-function calls + caller history; for a drawn "
             "(quick) or for every (thorough) call index of a drawn step the k-th user-function call of "
             "that step raises a drawn ordinary exception in the interpreter and, separately, in the "
             "generated class; checks X1 exception identity, X2 no temporary visible, X3 allowed values, "
             "X4 dependents unchanged, X5 resumption == fresh stepper from that state. distinct = (script "
             "shape, backend, fault step, call index, exception class) hash; non-trivial = the fault fired"),
    "real": ["NumpyInterpreter.run/run_single_step finally-clause and ExecutionController.reset",
             "generated run()/run_single_step()/phase functions", "CodeBuilder dependency graph"],
    "stub": ["user functions (fault plan: k-th call of step m raises e)", "caller history",
             "reference stepper (allowed-value sets)"],
    "assumptions": ["exceptions other than dagrt's control exceptions, StopIteration and GeneratorExit (KeyboardInterrupt "
                    "and a BaseException subclass included)",
                    "X3/X4 are evaluated for programs whose fault-free step is well defined"],
    "probes": ["fault_after_persistent_write", "fault_in_loop", "fault_in_guarded", "second_fault",
               "fault_first_call", "resume_steps", "interleaved_resumption",
               "fault_after_completed_step_of_same_run_call", "fault_not_an_Exception_subclass",
               "write_waits_for_call_through_a_nop_barrier", "held_exception_released_inside_a_later_step"],
 },
}


# ------------------------------------------------------------------ backends

class Backend:
    name = "?"

    def filter_want(self, want):
        return want

    def events_of(self, ev):
        """Normalise a yielded event to the reference's tuple form."""
        n = type(ev).__name__
        if n == "StateComputed":
            v = ev.state_component
            return ("state", ev.t, ev.time_id, ev.component_id,
                    v.copy() if isinstance(v, np.ndarray) else v)
        if n == "StepCompleted":
            return ("completed", ev[0], ev[1], ev[2], ev[3])
        if n == "StepFailed":
            return ("failed", ev.t)
        return ("unknown", repr(ev))


class InterpBackend(Backend):
    name = "interpreter"

    def __init__(self, code, function_map):
        self.obj = NumpyInterpreter(code, function_map)
        self.FailStep = FailStepException
        self.Transition = TransitionEvent

    def set_up(self, t0, dt0, state):
        self.obj.set_up(t0, dt0, {k: (v.copy() if isinstance(v, np.ndarray) else v)
                                  for k, v in state.items()})

    def persistent(self):
        return {k: v for k, v in self.obj.context.items() if is_persistent(k)}

    def store_keys(self):
        return list(self.obj.context.keys())

    def error_kind(self, e):
        return type(e).__name__

    def is_step_error(self, e):
        return type(e) in ERRORS.values()

    def install(self, store, next_phase):
        self.obj.context.clear()
        for k, v in store.items():
            self.obj.context[k] = v.copy() if isinstance(v, np.ndarray) else v
        self.obj.next_phase = next_phase


class GenBackend(Backend):
    name = "generated"

    def __init__(self, cls, name_manager, function_map):
        self.obj = cls(function_map)
        self.nmgr = name_manager
        self.FailStep = cls.FailStepException
        self.Transition = cls.TransitionEvent
        self.StepError = cls.StepError
        self.base_attrs = None

    def set_up(self, t0, dt0, state):
        self.obj.set_up(t0, dt0, {k: (v.copy() if isinstance(v, np.ndarray) else v)
                                  for k, v in state.items()})
        self.base_attrs = set(vars(self.obj))

    def _attr(self, ir_name):
        ident = self.nmgr.name_global(ir_name)
        assert ident.startswith("self.")
        return ident[5:]

    def persistent(self):
        out = {}
        for ir in list(self.nmgr.get_global_ids()):
            a = self._attr(ir)
            if hasattr(self.obj, a):
                v = getattr(self.obj, a)
                out[ir] = v
        return out

    def error_kind(self, e):
        return e.condition

    def filter_want(self, want):
        # the generated class only stores persistent names that occur in the program
        known = set(self.nmgr.get_global_ids())
        return {k: v for k, v in want.items() if k in known}

    def is_step_error(self, e):
        return isinstance(e, self.StepError)

    def install(self, store, next_phase):
        for ir in list(self.nmgr.get_global_ids()):
            a = self._attr(ir)
            if ir in store:
                v = store[ir]
                setattr(self.obj, a, v.copy() if isinstance(v, np.ndarray) else v)
            elif hasattr(self.obj, a) and ir not in ("<t>", "<dt>"):
                delattr(self.obj, a)
        self.obj.next_phase = next_phase


# ------------------------------------------------------------------ building

class Built:
    pass


def build_all(ctx, sc, tape, permute=True, edit=None):
    """Apply the script on real builders; make the interpreter's DAGCode (tape-owned
    orders) and the generated class."""
    b = Built()
    try:
        ap = apply_script(sc)
    except Exception as e:
        tb = traceback.extract_tb(e.__traceback__)
        where = [f.name for f in tb if "/dagrt/" in f.filename]
        raise Violation("builder-exception:" + type(e).__name__,
                        "CodeBuilder rejected a valid call sequence: %r\n%s" % (e, "\n".join(sc.text())),
                        site=(where[-1] if where else ""))
    b.ap = ap
    # generated code first (statements still carry plain frozensets)
    plain_phases = {}
    order = list(sc.phases)
    if permute:
        order = [order[i] for i in tape.perm(len(order), "phaseorder")]
    from dagrt.language import ExecutionPhase
    # the phase may be taken from the builder by as_execution_phase() -- a snapshot: calls that the same
    # builder receives afterwards (here: a yield nobody wrote into this program) do not belong to it
    snapshots = {}
    with tape.span("snapshot"):
        if tape.chance(0.2, "phase_snapshot_then_more_calls"):
            from pymbolic import var as _var
            for ph in sc.phases:
                cb = ap.builders[ph.name]
                snap = cb.as_execution_phase(ph.next_phase)
                if tape.chance(0.5, "snapshot_used_first"):
                    snap.depends_on
                cb.yield_state(_var("<t>") + 12345, "leak", _var("<t>"), "leak")
                snapshots[ph.name] = snap
            ctx.count("probe:builder_extended_after_phase_snapshot")
    b.phase_stmts = {}
    for ph in sc.phases:
        stmts = list(ap.builders[ph.name].statements)
        if ph.name in snapshots:
            stmts = sorted(snapshots[ph.name].statements, key=lambda st: int(st.id.rsplit("_", 1)[1]))
        if edit is not None:
            stmts = edit(ph.name, stmts)
        b.phase_stmts[ph.name] = stmts
    for ph in order:
        stmts = list(b.phase_stmts[ph.name])
        if permute:
            stmts = [stmts[i] for i in tape.perm(len(stmts), "storage")]
        plain_phases[ph.name] = ExecutionPhase(ph.name, ph.next_phase, stmts)
    b.code_plain = DAGCode(plain_phases, sc.initial)
    try:
        cg = PythonCodeGenerator(class_name="Method")
        with tape.span("generator_reused"):
            reused = tape.chance(0.2, "generator_reused")
        if reused:
            # history of the generator object: it made the class of another description before (a small
            # description that is gone again by the time this one is assembled), then get_class() is asked for
            # this one
            from pymbolic import var as _var
            from dagrt.language import Assign as _Assign, YieldState as _Yield
            dstm = [_Assign(id="d0", assignee="<state>decoy", assignee_subscript=(), expression=_var("<t>") + 4242,
                            depends_on=[]),
                    _Yield(id="d1", time=_var("<t>"), time_id="decoy", component_id="decoy",
                           expression=_var("<state>decoy"), depends_on=["d0"])]
            decoy = DAGCode({"main": ExecutionPhase("main", "main", dstm)}, "main")
            cg.get_class(decoy)
            # CPython hands the storage of a dead object to the next object of its size: assemble the description
            # until it sits where the dead one sat (object identity is all that tells descriptions apart for
            # whoever keys a table by id()).  Nothing is allocated between the death and the first attempt.
            keep = [None] * 64
            tries = iter(range(64))
            initial = sc.initial
            dead = id(decoy)
            del decoy
            for _try in tries:
                cand = DAGCode(plain_phases, initial)
                if id(cand) == dead:
                    break
                keep[_try] = cand
            # (whether the address was hit depends on the allocator's state: counted outside the run digest)
            if id(cand) == dead:
                ctx.count("nondet:description_at_the_address_of_a_dead_one")
            b.code_plain = cand
            del keep, dstm
            b.cls = cg.get_class(b.code_plain)
            b.text = None
            ctx.count("probe:generator_object_reused")
        else:
            b.text = cg(b.code_plain)
            ns = {}
            exec(compile(b.text, "<generated>", "exec"), ns)
            b.cls = ns["Method"]
        b.nmgr = cg._name_manager
    except Exception as e:
        tb = traceback.extract_tb(e.__traceback__)
        where = [f.name for f in tb if "/dagrt/" in f.filename]
        raise Violation("codegen-exception:" + type(e).__name__,
                        "PythonCodeGenerator failed: %r" % (e,),
                        site=(where[-1] if where else ""))
    # interpreter: tape-owned orders
    chooser = TapeChooser(tape, ctx.log, counter=lambda site: ctx.count(
        "fault:perm_" + site.split(":")[0]), enabled=permute)
    b.chooser = chooser
    sim_phases = {}
    for ph in order:
        stmts = [st.copy() for st in b.phase_stmts[ph.name]]
        for st in stmts:
            st.depends_on = OrdFS(st.depends_on, chooser, "deps:" + st.id)
        if permute:
            stmts = [stmts[i] for i in tape.perm(len(stmts), "storage_i")]
        sim_phases[ph.name] = SimPhase(ph.name, ph.next_phase, stmts, chooser)
    b.code_sim = DAGCode(sim_phases, sc.initial)
    with tape.span("shared_description"):
        if tape.chance(0.15, "shared_description"):
            # the interpreter is given the very description objects the generator has just worked on
            # (plain sets: their iteration order is then the interpreter's own business)
            b.code_sim = b.code_plain
            ctx.count("probe:interpreter_after_codegen_on_same_objects")
    return b


def gen_history(tape, sc, max_ops=3):
    ops = []
    with tape.span("history"):
        n = 1 + tape.draw(max_ops, "nops")
        for _ in range(n):
            with tape.span("callerop"):
                k = tape.weighted([3, 2, 1, 2, 0.8], "opkind")
                if k == 4:
                    # absolute end times, including 0 / 0.0 and times already passed
                    ops.append(("run", "abs:%s" % ["0", "0.0", "1", "-1", "0.5"][tape.draw(5, "abs_t_end")],
                                None if tape.chance(0.3, "nomax") else 1 + tape.draw(4, "max_steps")))
                elif k == 0:
                    ops.append(("run", None, 1 + tape.draw(4, "max_steps")))
                elif k == 1:
                    ops.append(("run", "rel:%d" % (1 + tape.draw(4, "t_end")), None))
                elif k == 2:
                    ops.append(("run", "rel:%d" % (1 + tape.draw(4, "t_end")), 1 + tape.draw(4, "max_steps")))
                else:
                    ops.append(("single", 1 + tape.draw(3, "nsingle")))
    return ops


def ref_run_op(ref, op, event_cap):
    """Runs one caller operation on the reference; returns (events, bounds, end, t_end)
    where bounds = [n_events_when_step_is_over, store, next_phase, outcome] per step
    (n_events includes the step's closing StepCompleted/StepFailed event for run())
    and end in 'done' | 'cap' | ('raised', kind)."""
    start = len(ref.events)
    bounds = []
    orig_step = ref.step
    is_run = op[0] == "run"

    def step_hook():
        out = orig_step()
        n = len(ref.events) - start
        if is_run and not isinstance(out, tuple):
            n += 1
        bounds.append([n, ref.persistent(), ref.next_phase, out])
        return out
    ref.step = step_hook
    try:
        if is_run:
            t_end = op[1]
            if isinstance(t_end, str) and t_end.startswith("abs:"):
                t_end = float(t_end[4:]) if "." in t_end else int(t_end[4:])
            elif isinstance(t_end, str):
                t_end = ref.vars["<t>"] + int(t_end[4:]) * (abs(ref.vars["<dt>"]) or 1)
            end = ref.run(t_end=t_end, max_steps=op[2], event_cap=event_cap)
            return ref.events[start:], bounds, end, t_end
        end = "done"
        for _ in range(op[1]):
            out = ref.step()
            if isinstance(out, tuple):
                end = out
                break
        return ref.events[start:], bounds, end, None
    finally:
        ref.step = orig_step


class Tol:
    """Comparison tolerance of the current run (None = exact)."""
    ref = None

    @classmethod
    def get(cls):
        r = cls.ref
        if r is None or not r.tolerant:
            return None
        return (1e-9, 1e-9 * r.scale)


def events_equal(a, b):
    if a[0] != b[0] or len(a) != len(b):
        return False
    tol = Tol.get()
    for x, y in zip(a[1:], b[1:]):
        if isinstance(x, str) or isinstance(y, str):
            if x != y:
                return False
        elif not same_value(x, y, tol):
            return False
    return True


def show(v):
    if isinstance(v, np.ndarray):
        return "array(%s)" % (v.tolist(),)
    if isinstance(v, tuple):
        return "(" + ", ".join(show(x) for x in v) + ")"
    return repr(v)


def compare_store(backend, got, want, where):
    want = backend.filter_want(want)
    for k in sorted(set(got) | set(want)):
        if k not in got:
            raise Violation("store-mismatch:" + backend.name,
                            "%s: %s missing (reference has %s)" % (where, k, show(want[k])), site=_vclass(k))
        if k not in want:
            if got[k] is None:
                continue
            raise Violation("store-mismatch:" + backend.name,
                            "%s: %s = %s but the written program has not assigned it" % (where, k, show(got[k])),
                            site=_vclass(k))
        if not same_value(got[k], want[k], Tol.get()):
            raise Violation("store-mismatch:" + backend.name,
                            "%s: %s = %s, reference %s" % (where, k, show(got[k]), show(want[k])),
                            site=_vclass(k))


def _vclass(name):
    if name in ("<t>", "<dt>"):
        return name
    return name[:name.index(">") + 1] if name.startswith("<") else "temp"


def exc_site(e):
    tb = traceback.extract_tb(e.__traceback__)
    where = [f.name for f in tb if "/dagrt/" in f.filename or f.filename == "<generated>"]
    return "%s@%s" % (type(e).__name__, where[-1] if where else "?")


def drive_op(ctx, backend, op, t_end, exp_events, bounds, end, label, on_step=None):
    """Drive one caller operation on a real stepper, comparing with the reference."""
    obj = backend.obj
    bidx = 0
    n_seen = 0

    def at_boundary():
        nonlocal bidx
        for i in range(bidx, len(bounds)):
            if bounds[i][0] == n_seen:
                _n, store, nxt, _out = bounds[i]
                compare_store(backend, backend.persistent(), store, "%s after step %d" % (label, i))
                if obj.next_phase != nxt:
                    raise Violation("next-phase-mismatch:" + backend.name,
                                    "%s after step %d: next_phase %r, reference %r"
                                    % (label, i, obj.next_phase, nxt))
                bidx = i + 1
                return

    def check_event(ev):
        nonlocal n_seen
        got = backend.events_of(ev)
        if n_seen >= len(exp_events):
            raise Violation("event-mismatch:" + backend.name,
                            "%s: extra event %s after the %d expected" % (label, show(got), len(exp_events)),
                            site="extra")
        want = exp_events[n_seen]
        if not events_equal(got, want):
            raise Violation("event-mismatch:" + backend.name,
                            "%s: event %d is %s, reference %s" % (label, n_seen, show(got), show(want)),
                            site=want[0])
        n_seen += 1

    if op[0] == "run":
        gen = obj.run(t_end=t_end, max_steps=op[2])
        try:
            while True:
                if end == "cap" and n_seen >= len(exp_events):
                    gen.close()
                    ctx.count("probe:cap_abandon")
                    break
                try:
                    ev = next(gen)
                except StopIteration:
                    break
                check_event(ev)
                if type(ev).__name__ in ("StepCompleted", "StepFailed"):
                    at_boundary()
        except Violation:
            raise
        except Exception as e:
            if backend.is_step_error(e):
                kind = backend.error_kind(e)
                if not (isinstance(end, tuple) and end[1] == kind and n_seen == len(exp_events)):
                    raise Violation("unexpected-exception:%s:%s" % (backend.name, "StepError"),
                                    "%s: raised %s after %d events; reference ends with %r after %d events"
                                    % (label, kind, n_seen, end, len(exp_events)), site="raise")
                at_boundary()
                return
            raise Violation("unexpected-exception:%s:%s" % (backend.name, type(e).__name__),
                            "%s: %r after %d events (reference: %d events, end %r)\n%s"
                            % (label, e, n_seen, len(exp_events), end,
                               "".join(traceback.format_exception(type(e), e, e.__traceback__)[-4:])),
                            site=exc_site(e))
        if isinstance(end, tuple):
            raise Violation("missing-exception:" + backend.name,
                            "%s: run() ended normally after %d events, reference raises %s"
                            % (label, n_seen, end[1]))
        if n_seen != len(exp_events):
            raise Violation("event-mismatch:" + backend.name,
                            "%s: run() ended after %d events, reference has %d (next would be %s)"
                            % (label, n_seen, len(exp_events), show(exp_events[n_seen])), site="missing")
        at_boundary()
    else:
        # k single steps; the caller applies the step protocol itself
        for si in range(len(bounds)):
            out = bounds[si][3]
            got_out = "completed"
            try:
                for ev in obj.run_single_step():
                    check_event(ev)
            except Violation:
                raise
            except backend.FailStep:
                got_out = "failed"
            except backend.Transition as e:
                obj.next_phase = e.next_phase
            except Exception as e:
                if backend.is_step_error(e):
                    got_out = ("raised", backend.error_kind(e))
                else:
                    raise Violation("unexpected-exception:%s:%s" % (backend.name, type(e).__name__),
                                    "%s single step %d: %r\n%s" % (label, si, e, "".join(
                                        traceback.format_exception(type(e), e, e.__traceback__)[-4:])),
                                    site=exc_site(e))
            if got_out != out:
                raise Violation("step-outcome-mismatch:" + backend.name,
                                "%s single step %d: %r, reference %r" % (label, si, got_out, out))
            if n_seen != bounds[si][0]:
                raise Violation("event-mismatch:" + backend.name,
                                "%s single step %d: %d events so far, reference %d"
                                % (label, si, n_seen, bounds[si][0]), site="missing")
            compare_store(backend, backend.persistent(), bounds[si][1], "%s after single step %d" % (label, si))
            if obj.next_phase != bounds[si][2]:
                raise Violation("next-phase-mismatch:" + backend.name,
                                "%s after single step %d: next_phase %r, reference %r"
                                % (label, si, obj.next_phase, bounds[si][2]))


def count_ops(ops):
    n = 0
    for op in ops:
        n += 1
        if op[0] == "if":
            n += count_ops(op[2]) + (count_ops(op[3]) if op[3] else 0)
    return n


def run_c01(ctx):
    tape = ctx.tape
    thorough = ctx.thorough
    with tape.span("knobs"):
        permute = tape.chance(0.85, "permute")
        max_ops = [4, 8, 12][tape.draw(3, "max_ops")] if not thorough else [6, 10, 14][tape.draw(3, "max_ops")]
    gen = ScriptGen(tape, max_ops=max_ops, max_phases=3, max_depth=2)
    sc = gen.gen()
    history = gen_history(tape, sc)
    ctx.decoded["features"] = sc.features
    b = build_all(ctx, sc, tape, permute)
    ctx.decoded["script"] = sc.text(b.ap.nm)
    ctx.decoded["history"] = [list(o) for o in history]

    ref = RefStepper(sc, b.ap.nm)
    Tol.ref = ref
    ref.set_up(sc.t0, sc.dt0, sc.state0)
    backs = [InterpBackend(b.code_sim, {fn: sc.func_impl(fn) for fn in sc.funcs}),
             GenBackend(b.cls, b.nmgr, {fn: sc.func_impl(fn) for fn in sc.funcs})]
    for bk in backs:
        bk.set_up(sc.t0, sc.dt0, sc.state0)
        compare_store(bk, bk.persistent(), ref.persistent(), "after set_up")
    outcomes = []
    total_steps = 0
    raised_before = False
    # other stepper instances of the same description live in the same process (their own function
    # tables, their own state): they must not influence the instances under observation
    decoy_state = {"active": False}

    def decoy_funcs():
        def mk(fn):
            impl = sc.func_impl(fn)

            def f(*a, **k):
                if not decoy_state["active"]:
                    raise Violation("instance-interference", "a function given to another stepper instance "
                                    "(%s) was called by the instance under observation" % fn, site="functions")
                return impl(*a, **k)
            return f
        return {fn: mk(fn) for fn in sc.funcs}

    def make_decoys():
        ctx.count("probe:second_instance")
        made = [InterpBackend(b.code_sim, decoy_funcs()), GenBackend(b.cls, b.nmgr, decoy_funcs())]
        step = tape.chance(0.5, "decoy_step")
        for d in made:
            try:
                decoy_state["active"] = True
                # (same initial state as the observed instances: its first step is known to be well defined
                # once the reference has taken it)
                d.set_up(sc.t0, sc.dt0, sc.state0)
                if step and total_steps >= 1:
                    try:
                        for _ev in d.obj.run_single_step():
                            pass
                    except Violation:
                        raise
                    except Exception as e:      # FailStep / Transition / StepError of the decoy's own step
                        if type(e).__name__ == "RunTimeout":
                            raise
            finally:
                decoy_state["active"] = False
    with tape.span("decoy0"):
        if tape.chance(0.2, "decoy"):
            make_decoys()
    for oi, op in enumerate(history):
        if oi:
            with tape.span("decoy"):
                if tape.chance(0.15, "decoy"):
                    make_decoys()
        exp_events, bounds, end, t_end = ref_run_op(ref, op, event_cap=48)
        for bd in bounds:
            o = bd[3]
            outcomes.append(o if isinstance(o, str) else "raised")
        if raised_before:
            ctx.count("probe:op_after_raise")
        label_ops = "op %d %r" % (oi, op)
        for bk in backs:
            drive_op(ctx, bk, op, t_end, exp_events, bounds, end, "%s %s" % (bk.name, label_ops))
        total_steps += len(bounds)
        if isinstance(end, tuple):
            raised_before = True
        if end == "done" and op[0] == "run" and op[1] is not None and (op[2] is None or len(
                [x for x in bounds if x[3] == "completed"]) < op[2]):
            ctx.count("probe:t_end_stop")
    for a, c in zip(outcomes, outcomes[1:]):
        if a == "failed" and c == "completed":
            ctx.count("probe:failed_then_completed")
    ctx.count("probe:step_failed", outcomes.count("failed"))
    ctx.count("probe:step_raised", outcomes.count("raised"))
    ctx.count("sum:steps", total_steps)
    if ref.tolerant:
        ctx.count("tolerant_mode_runs")
    for k, v in ref.probes.items():
        ctx.count("probe:" + k, v)
    try:
        ctx.count("sum:simulated_time", round(min(abs(float(ref.vars["<t>"]) - float(sc.t0)), 1e3), 6))
    except Exception:
        pass
    n_calls = sum(count_ops(ph.ops) for ph in sc.phases)
    ctx.nontrivial = total_steps >= 2 and n_calls >= 3
    ctx.dkey(sc.shape_sig, [ph.name for ph in sc.phases], outcomes, [o[0] for o in history])
    ctx.log.add("c01", outcomes, len(ref.events))
    ctx.sample = {"script": ctx.decoded["script"][:14], "history": ctx.decoded["history"],
                  "step_outcomes": outcomes[:8], "events": len(ref.events)}


class SeqChooser:
    """Iteration orders that are a fixed function of (seed, site, n-th iteration since
    reset): a twin stepper reset at the same point sees exactly the same schedule."""

    def __init__(self, seed, enabled=True):
        self.seed = seed
        self.enabled = enabled
        self.counts = {}

    def reset(self):
        self.counts = {}

    def __call__(self, site, items):
        if not self.enabled:
            return list(items)
        import random
        from simdag.core.tape import derive_seed
        n = self.counts.get(site, 0)
        self.counts[site] = n + 1
        order = list(items)
        random.Random(derive_seed(self.seed, site, n)).shuffle(order)
        return order


def step_iter(bk, mode, cap=40):
    """One caller-level operation on a real stepper as a coroutine: yields after every event it
    receives (so that two steppers can be advanced alternately) and returns (events, outcome).
    mode: "single" | "run1" | ("run", M)."""
    from simdag.core.outcome import RunTimeout
    events = []
    obj = bk.obj
    try:
        if mode == "single":
            for ev in obj.run_single_step():
                events.append(bk.events_of(ev))
                yield
            return events, "completed"
        gen = obj.run(max_steps=1 if mode == "run1" else mode[1])
        for ev in gen:
            events.append(bk.events_of(ev))
            if events[-1][0] in ("failed", "completed"):
                # the generator is suspended between two steps: a step boundary
                bk.boundary = ({k: (v.copy() if isinstance(v, np.ndarray) else v)
                                for k, v in bk.persistent().items()}, obj.next_phase)
            if len(events) >= cap:
                gen.close()
                return events, "cap"
            yield
        return events, "run-done"
    except bk.FailStep:
        return events, "failed"
    except bk.Transition as e:
        obj.next_phase = e.next_phase
        return events, "completed"
    except (Violation, Discard, RunTimeout, GeneratorExit):
        raise
    except BaseException as e:
        return events, ("exc", e)


def do_step(bk, mode, cap=40):
    """Drives step_iter to its end.  Returns (events, outcome)."""
    it = step_iter(bk, mode, cap)
    while True:
        try:
            next(it)
        except StopIteration as stop:
            return stop.value


def do_step_pair(A, B, mode, cap=40):
    """Two live steppers advanced alternately, one event each."""
    its = [step_iter(A, mode, cap), step_iter(B, mode, cap)]
    res = [None, None]
    while res[0] is None or res[1] is None:
        for i in (0, 1):
            if res[i] is None:
                try:
                    next(its[i])
                except StopIteration as stop:
                    res[i] = stop.value
    return res


def _desc(deps_idx, f):
    n = len(deps_idx)
    out = set()
    for i in range(n):
        stack = list(deps_idx[i])
        seen = set()
        while stack:
            j = stack.pop()
            if j == f:
                out.add(i)
                break
            if j in seen:
                continue
            seen.add(j)
            stack.extend(deps_idx[j])
    return out


def run_c11(ctx):
    tape = ctx.tape
    thorough = ctx.thorough
    with tape.span("knobs"):
        permute = tape.chance(0.85, "permute")
        max_ops = [4, 8, 12][tape.draw(3, "max_ops")]
        sched_seed = tape.draw(1 << 30, "sched_seed")
    gen = ScriptGen(tape, max_ops=max_ops, max_phases=3, max_depth=2, unique_sites=True,
                    force=("calls", "call_stmt"))
    sc = gen.gen()
    if not sc.funcs:
        raise Discard("no-user-function")
    def barriers(phase_name, stmts):
        """hand-written ordering barriers: a Nop that waits for a user call, and a later write of a
        persistent variable that waits for the Nop (no data flows from the call to the write)."""
        from dagrt.language import Assign as _Assign, Nop as _Nop
        with tape.span("barriers"):
            if not tape.chance(0.3, "barriers"):
                return stmts
            out = list(stmts)
            calls = [i for i, st in enumerate(out) if "<func>" in str(st)]
            for bi in range(2):
                if not calls:
                    break
                fi = calls[tape.draw(len(calls), "barrier_call")]
                later = [i for i in range(fi + 1, len(out)) if isinstance(out[i], _Assign)
                         and is_persistent(out[i].assignee) and out[fi].id not in out[i].depends_on]
                if not later:
                    continue
                wi = later[tape.draw(len(later), "barrier_write")]
                nop = _Nop(id="barrier_%s_%d" % (phase_name, bi), depends_on=[out[fi].id])
                out[wi] = out[wi].copy(depends_on=frozenset(out[wi].depends_on) | {nop.id})
                out.append(nop)
                ctx.count("probe:write_waits_for_call_through_a_nop_barrier")
            return out

    b = build_all(ctx, sc, tape, permute=False, edit=barriers)
    ctx.decoded["script"] = sc.text(b.ap.nm)
    ctx.decoded["features"] = sc.features
    chooser = SeqChooser(sched_seed, enabled=permute)
    # interpreter DAG with SeqChooser-owned orders
    sim_phases = {}
    for ph in sc.phases:
        stmts = [st.copy() for st in b.phase_stmts[ph.name]]
        for st in stmts:
            st.depends_on = OrdFS(st.depends_on, chooser, "deps:" + st.id)
        sim_phases[ph.name] = SimPhase(ph.name, ph.next_phase, stmts, chooser)
    code_sim = DAGCode(sim_phases, sc.initial)

    def mk(kind):
        table = FuncTable(ctx.log, kind)
        fmap = {fn: table.wrap(fn, sc.func_impl(fn)) for fn in sc.funcs}
        bk = InterpBackend(code_sim, fmap) if kind == "interpreter" else GenBackend(b.cls, b.nmgr, fmap)
        bk.table = table
        # every stepper is set up through the public set_up() first (it may initialise internals);
        # install() then overwrites the variable store and the phase
        bk.set_up(sc.t0, sc.dt0, sc.state0)
        return bk

    with tape.span("plan"):
        pre_steps = tape.draw(4, "pre_steps")
        step_mode = ["single", "run1", ("run", 2), ("run", 3)][tape.weighted([3, 3, 1, 1], "step_mode")]
        interleave = tape.chance(0.3, "interleave_resumed_and_fresh")
        hold_exception = tape.chance(0.4, "hold_exception")
        warnings_are_errors = tape.chance(0.25, "warnings_are_errors")
    if warnings_are_errors:
        ctx.count("fault:warnings_are_errors")
    with tape.span("plan2"):
        pass
        exc_cls = FAULT_CLASSES[tape.draw(len(FAULT_CLASSES), "exc")]
        n_after = 1 + tape.draw(3, "n_after")
        second_fault = tape.chance(0.3, "second_fault")
    # well-definedness / magnitude pre-filter over the horizon of this run (the reference discards
    # ill-defined programs and exploding values before any real stepper runs)
    try:
        pre = RefStepper(sc, b.ap.nm)
        pre.set_up(sc.t0, sc.dt0, sc.state0)
        for _ in range(pre_steps + n_after + 4):
            if isinstance(pre.step(), tuple):
                break
    except IllDefined as e:
        raise Discard("ill-defined-horizon:" + e.reason.split(":")[-1])
    kinds = ["interpreter", "generated"]
    fired_any = False
    for kind in kinds:
        with tape.span("backend"):
            A = mk(kind)
            A.set_up(sc.t0, sc.dt0, sc.state0)
            # fault-free prefix
            for _ in range(pre_steps):
                chooser.reset()
                A.table.new_step()
                _evs, out = do_step(A, "single")
                if isinstance(out, tuple) and not A.is_step_error(out[1]):
                    raise Discard("ill-defined:prefix-raises")
            # find a step with user-function calls (dry run on a twin from the same state)
            N = 0
            for _try in range(3):
                pre = {k: (v.copy() if isinstance(v, np.ndarray) else v) for k, v in A.persistent().items()}
                pre_phase = A.obj.next_phase
                T = mk(kind)
                T.install(pre, pre_phase)
                chooser.reset()
                T.table.new_step()
                t_evs, t_out = do_step(T, step_mode)
                N = T.table.step_calls
                if isinstance(t_out, tuple) and not T.is_step_error(t_out[1]):
                    raise Discard("ill-defined:fault-free-step-raises")
                if N > 0:
                    break
                chooser.reset()
                A.table.new_step()
                do_step(A, "single")
            if N == 0:
                ctx.count("no_call_in_step:" + kind)
                continue
            ks = list(range(N)) if thorough else sorted(set(tape.draw(N, "k") for _ in range(2)))
            ctx.decoded.setdefault("faults", [])
            for k in ks[:24]:
                if k != ks[0]:
                    A = mk(kind)
                    A.install(pre, pre_phase)
                    if kind == "generated":
                        A.base_attrs = set(vars(A.obj))
                exc = exc_cls("injected fault at call %d" % k)
                chooser.reset()
                A.table.new_step()
                A.table.arm(k, exc)
                A.boundary = (pre, pre_phase)
                if warnings_are_errors:
                    # process configuration: -W error (as test runners set it): anything that warns on the way
                    # out raises instead
                    with warnings.catch_warnings():
                        warnings.simplefilter("error")
                        evs, out = do_step(A, step_mode)
                else:
                    evs, out = do_step(A, step_mode)
                step_pre, step_phase = A.boundary       # state at the start of the step that faulted
                label = "%s: fault %s at user call %d of the step in phase %r after %d steps" % (
                    kind, exc_cls.__name__, k, pre_phase, pre_steps)
                ctx.decoded["faults"].append(label)
                if A.table.fired is None:
                    raise Violation("resume-divergence", "%s: twin stepper from the same state made %d calls, "
                                    "this one ended (%r) before call %d" % (label, N, out, k), site=kind)
                fired_any = True
                fn_fired = A.table.fired[0]
                if any(e[0] == "completed" for e in evs):
                    ctx.count("probe:fault_after_completed_step_of_same_run_call")
                ctx.count("fault:user_function_raises")
                ctx.count("fault:exc_" + exc_cls.__name__)
                if not issubclass(exc_cls, Exception):
                    ctx.count("probe:fault_not_an_Exception_subclass")
                if k == 0:
                    ctx.count("probe:fault_first_call")
                # X1
                if not (isinstance(out, tuple) and out[1] is exc):
                    got = out[1] if isinstance(out, tuple) else out
                    raise Violation("exception-identity", "%s: caller received %r instead of the exception "
                                    "object raised by the user function" % (label, got), site=kind)
                post = A.persistent()
                # X2
                if kind == "interpreter":
                    temps = sorted(k2 for k2 in A.store_keys() if not is_persistent(k2))
                else:
                    temps = sorted(a for a in set(vars(A.obj)) - (A.base_attrs or set())
                                   if not a.startswith("global_"))
                if temps:
                    raise Violation("temporary-visible", "%s: per-step names still visible: %r" % (label, temps),
                                    site=kind)
                # X3 / X4 against the written program's fault-free step from the same state
                stmts = list(b.phase_stmts[step_phase])
                pos = {st.id: i for i, st in enumerate(stmts)}
                deps_idx = [[pos[d] for d in st.depends_on] for st in stmts]
                F = [i for i, st in enumerate(stmts) if fn_fired in str(st)]
                if len(F) == 1:
                    f = F[0]
                    desc = _desc(deps_idx, f)
                    if stmts[f].condition is not True:
                        ctx.count("probe:fault_in_guarded")
                    if getattr(stmts[f], "loops", None):
                        ctx.count("probe:fault_in_loop")
                    ref = RefStepper(sc, b.ap.nm)
                    Tol.ref = ref
                    ref.vars = {k2: (v.copy() if isinstance(v, np.ndarray) else v) for k2, v in step_pre.items()}
                    ref.next_phase = step_phase
                    ref.writes = {}
                    ok_ref = True
                    try:
                        ref.step()
                    except IllDefined:
                        ok_ref = False
                        ctx.count("x3_skipped_ill_defined")
                    if ok_ref:
                        check_x3_x4(label, kind, step_pre, post, ref, b.ap, step_phase, stmts, f, desc)
                for v in sorted(step_pre):
                    if v not in post and step_pre[v] is not None:
                        raise Violation("value-not-allowed", "%s: %s held %s before the step and does not exist "
                                        "any more" % (label, v, show(step_pre[v])), site=kind + ":vanished")
                if any(not same_value(post.get(v), step_pre.get(v)) for v in post):
                    ctx.count("probe:fault_after_persistent_write")
                # the caller keeps the exception (with its traceback and every frame it pins) in a "last
                # error" slot and lets go of it at some later user-function call -- possibly in the middle of
                # a later step; nothing else refers to it from here on
                holder = {"exc": out[1] if hold_exception else None}
                exc = out = evs = None
                A.table.fault_exc = None

                def release(fn_, idx_, _h=holder):
                    if _h["exc"] is not None and tape.chance(0.35, "release_held_exception"):
                        _h["exc"] = None
                        ctx.count("probe:held_exception_released_inside_a_later_step")
                A.table.on_call = release if hold_exception else None
                # X5 resumption: old object vs a fresh stepper installed with the same state
                B = mk(kind)
                B.install(post, A.obj.next_phase)
                for oi in range(n_after):
                    results = []
                    mode_oi = step_mode if oi % 2 == 0 else "single"
                    if interleave:
                        # the resumed stepper and its fresh twin are alive at the same time and are
                        # advanced alternately (fixed iteration orders: they share one chooser)
                        was = chooser.enabled
                        chooser.enabled = False
                        try:
                            for S in (A, B):
                                S.table.new_step()
                                if second_fault and oi == 0:
                                    S.table.arm(0, exc_cls("second fault"))
                            results = do_step_pair(A, B, mode_oi)
                            for S in (A, B):
                                S.table.disarm()
                        finally:
                            chooser.enabled = was
                        ctx.count("probe:interleaved_resumption")
                    else:
                        for S in (A, B):
                            chooser.reset()
                            S.table.new_step()
                            if second_fault and oi == 0:
                                S.table.arm(0, exc_cls("second fault"))
                            results.append(do_step(S, mode_oi))
                            S.table.disarm()
                    if second_fault and oi == 0:
                        ctx.count("probe:second_fault")
                    ctx.count("probe:resume_steps")
                    (ea, oa), (eb, ob) = results
                    same_out = (oa == ob) if not (isinstance(oa, tuple) or isinstance(ob, tuple)) else (
                        isinstance(oa, tuple) and isinstance(ob, tuple) and type(oa[1]) is type(ob[1])
                        and str(oa[1]) == str(ob[1]))
                    if not same_out or len(ea) != len(eb) or any(not events_equal(x, y) for x, y in zip(ea, eb)):
                        raise Violation("resume-divergence",
                                        "%s: step %d after the fault: resumed stepper %r / %s, fresh stepper "
                                        "started in the same state and phase %r / %s"
                                        % (label, oi, oa, [show(e) for e in ea], ob, [show(e) for e in eb]),
                                        site=kind)
                    # (storage made by <builtin>array and not yet filled is NaN in both: seams/memory.py)
                    pa, pb = A.persistent(), B.persistent()
                    for v in sorted(set(pa) | set(pb)):
                        if v not in pa or v not in pb or not same_value(pa[v], pb[v]):
                            if pa.get(v) is None and pb.get(v) is None:
                                continue
                            raise Violation("resume-divergence",
                                            "%s: step %d after the fault: %s = %s resumed, %s fresh"
                                            % (label, oi, v, show(pa.get(v)), show(pb.get(v))), site=kind)
                    if A.obj.next_phase != B.obj.next_phase:
                        raise Violation("resume-divergence", "%s: step %d after the fault: next_phase %r resumed, "
                                        "%r fresh" % (label, oi, A.obj.next_phase, B.obj.next_phase), site=kind)
                ctx.dkey(kind, pre_steps, k, exc_cls.__name__)
    ctx.nontrivial = fired_any
    ctx.dkey(sc.shape_sig, step_mode)
    ctx.count("sum:steps", pre_steps + n_after + 1)
    ctx.sample = {"script": ctx.decoded["script"][:12], "faults": ctx.decoded.get("faults", [])[:4]}


def check_x3_x4(label, kind, pre, post, ref, ap, phase, stmts, f, desc):
    tol = Tol.get()
    for v in sorted(pre):
        if v not in post and pre[v] is not None:
            raise Violation("value-not-allowed", "%s: %s held %s before the step and does not exist any more"
                            % (label, v, show(pre[v])), site=kind + ":vanished")
    for v in sorted(post):
        pv = post[v]
        allowed_whole = [pre.get(v)]
        elem_allowed = {}
        for (op, val) in ref.writes.get(v, []):
            ph, idxs = ap.op_stmts.get(id(op), (phase, []))
            if idxs and all(i in desc for i in idxs):
                continue
            if isinstance(val, tuple) and len(val) == 3 and val[0] == "elem":
                elem_allowed.setdefault(val[1], []).append(val[2])
            else:
                allowed_whole.append(val)
        ok = any(same_value(pv, a, tol) for a in allowed_whole if a is not None or pv is None)
        if not ok and isinstance(pv, np.ndarray):
            ok = True
            for i, x in enumerate(pv.tolist()):
                cands = [a[i] for a in allowed_whole if isinstance(a, np.ndarray) and len(a) == len(pv)]
                cands += elem_allowed.get(i, [])
                # the reference marks storage made by <builtin>array as NaN: the written program leaves
                # it uninitialised at that point, so any value is "a value the program assigns"
                if any(isinstance(c, (float, np.floating)) and c != c for c in cands):
                    continue
                if not any(same_value(x, c, tol) for c in cands):
                    ok = False
                    break
        if not ok:
            raise Violation("value-not-allowed", "%s: %s = %s is neither its value before the step (%s) nor a "
                            "value the written program assigns to it in this step %s"
                            % (label, v, show(pv), show(pre.get(v)),
                               [show(a) for a in allowed_whole[1:]][:6]), site=kind + ":" + _vclass(v))
    # X4: variables whose every write is the failing statement or depends on it
    for v in sorted(post):
        writers = [i for i, st in enumerate(stmts) if v in st.get_written_variables()]
        if not writers:
            continue
        loops_f = bool(getattr(stmts[f], "loops", None))
        if all((i in desc) or (i == f and not loops_f) for i in writers):
            if not same_value(post[v], pre.get(v), tol):
                raise Violation("dependent-var-changed", "%s: every write of %s depends on the failed call, yet it "
                                "changed from %s to %s" % (label, v, show(pre.get(v)), show(post[v])),
                                site=kind + ":" + _vclass(v))
