"""E-fort: C03 (compiled Fortran stepper == interpreter) and C12 (no leak, double
free or use of freed user-type storage) under a scripted driver.

Real: the whole Fortran pipeline (verify_code, lowering, four rewriting passes,
kind inference, emission, built-in templates, line wrapping), gfortran, the
compiled module.  Simulated: a generated driver program that initialises the
state, issues the seeded sequence of run calls (then shutdown) and prints the
state after each call; the interpreter (real) is the reference.
"""
import math
import os
import re
import shutil
import subprocess
import tempfile
import traceback

import numpy as np

from dagrt.exec_numpy import FailStepException, NumpyInterpreter, TransitionEvent
from dagrt.language import DAGCode, ExecutionPhase

from simdag.core.outcome import Discard, Violation
from simdag.gen.fortran_subset import FortranGen, make_registry, module_preamble, user_type_map
from simdag.gen.script import ERRORS, apply_script
from simdag.model.refstepper import is_persistent

_COMMON_REAL = ["dagrt.codegen.fortran.CodeGenerator (whole pipeline)", "dagrt.codegen.transform (four passes)",
                "dagrt.data kind inference", "dagrt.codegen.dag_ast lowering", "FortranExpressionMapper",
                "built-in templates", "gfortran 12", "the compiled module",
                "NumpyInterpreter (reference for C03)"]
META = {
 "C03": {
    "level": "exploration",
    "quick_runs": 1600,
    "block": 4,
    "block_limit": 1500,
    "thorough_budget_s": 1200,
    "min_runs": 60,
    "min_s": 120.0,
    "rule": ("one run = one seeded Fortran-subset builder script (user-type vectors with registered ODE right-hand "
             "sides, real scalars, arrays, loops, guarded blocks, conditional expressions, built-ins, 1..3 phases "
             "with guarded fail/switch/restart/raise) -> real Fortran generator -> gfortran -> executed by a "
             "generated driver for 1..8 run calls from a seeded initial state; after every run call next phase, "
             "<t>, <dt>, every persistent variable and the returned state/time/time-id are compared with the real "
             "interpreter after the corresponding step. distinct = (script shape, step outcome sequence) hash; "
             "non-trivial = compiled, >=2 run calls compared and >=1 user-type update"),
    "real": _COMMON_REAL,
    "stub": ["driver program (generated Fortran, prints state after each run call)",
             "sequence of run calls / initial state (seeded)", "Python twins of the registered functions"],
    "assumptions": ["gfortran 12 -O0 IEEE semantics; values compared with relative tolerance 1e-12",
                    "guards only compare exactly computed scalars (cannot flip between back ends)",
                    "programs on which kind inference cannot succeed are outside the subset (discarded, counted)"],
    "probes": ["step_failed", "step_switched", "step_raised", "compiled", "ret_compared", "structure_user_type",
               "two_user_types", "twin_phase", "earlier_generation_from_same_objects", "instrumented_module"],
 },
 "C12": {
    "level": "exploration",
    "quick_runs": 900,
    "block": 4,
    "block_limit": 1500,
    "thorough_budget_s": 1200,
    "min_runs": 60,
    "min_s": 120.0,
    "rule": ("one run = one seeded Fortran-subset script biased to user-type temporaries that are live across "
             "guarded early exits, moved to/from persistent variables, overwritten, yielded then overwritten or "
             "never used -> real Fortran generator -> gfortran -fsanitize=address,undefined -> driver performs "
             "1..8 run calls (completed, failed and switched steps) and then shutdown; verdict = ASan/UBSan/LSan "
             "report classes + shutdown's own 'leaked reference' lines. distinct = (script shape, step outcome "
             "sequence) hash; non-trivial = compiled, >=2 run calls and >=1 user-type temporary"),
    "real": _COMMON_REAL[:-1] + ["AddressSanitizer/LeakSanitizer/UBSan runtime"],
    "stub": ["driver program (generated Fortran)", "sequence of run calls (seeded)"],
    "assumptions": ["LSan reports storage unreachable at exit; storage still reachable from the driver's state "
                    "after shutdown is caught only by shutdown's own report",
                    "scripts in which a Raise stops the program are excluded (the property is about runs "
                    "followed by shutdown)"],
    "probes": ["step_failed", "step_switched", "ut_temp_live_across_exit", "ut_move", "compiled", "shutdown_ok",
               "structure_user_type", "two_user_types", "twin_phase", "earlier_generation_from_same_objects", "instrumented_module"],
 },
}

FMT = "ES25.17E3"


def scratch():
    return os.environ.get("VERIF_SCRATCH", "/var/tmp")


def persistent_names(ap, sc):
    names = set()
    for cb in ap.builders.values():
        for st in cb.statements:
            names |= set(st.get_read_variables()) | set(st.get_written_variables())
    return sorted(n for n in names if is_persistent(n))


def yield_components(ops, acc=None):
    acc = set() if acc is None else acc
    for op in ops:
        if op[0] == "yield":
            acc.add(op[2])
        if op[0] == "if":
            yield_components(op[2], acc)
            if op[3]:
                yield_components(op[3], acc)
    return acc


def lit(v):
    if v != v:
        return "ieee_value(1d0, ieee_quiet_nan)"
    s = repr(float(v))
    if "e" in s:
        s = s.replace("e", "d")
    else:
        s += "d0"
    return s


def ut_len(sc, ir):
    return sc.M if sc.types.get(ir) == "utv" else sc.N


def make_driver(sc, nmgr, pers, yields, n_elem):
    L = []
    a = L.append
    a("program driver")
    struct = getattr(sc, "struct", None)
    a("  use, intrinsic :: ieee_arithmetic")
    a("  use m, only: dagrt_state_type, dagrt_initialize => initialize, dagrt_run => run, &")
    a("    dagrt_shutdown => shutdown" + (", ytype" if struct else ""))
    a("  implicit none")
    # the state record lives on the heap in memory that is not zero-filled (ASan fills fresh
    # allocations with 0xbe, MALLOC_PERTURB_ does the same for the plain build): initialize() must
    # not rely on pointer components happening to be null
    a("  type(dagrt_state_type), pointer :: st")
    a("  type(dagrt_state_type), pointer :: sp")
    a("  integer :: nruns, r, i")
    init_args = ["dagrt_state=sp"]
    decl = []
    setv = []
    free = []
    for ir in pers:
        fname = nmgr.name_global(ir)
        if ir == "<t>":
            init_args.append("%s=%s" % (fname, lit(sc.t0)))
        elif ir == "<dt>":
            init_args.append("%s=%s" % (fname, lit(sc.dt0)))
        elif ir.startswith("<state>"):
            v = sc.state0[ir[7:]]
            if isinstance(v, np.ndarray) and struct and sc.types.get(ir) == "ut":
                na, nb = struct
                decl.append("  type(ytype) :: v_%s" % fname)
                setv.append("  v_%s%%a = (/ %s /)" % (fname, ", ".join(lit(x) for x in v[:na])))
                setv.append("  allocate(v_%s%%b(%d))" % (fname, nb))
                setv.append("  v_%s%%b = (/ %s /)" % (fname, ", ".join(lit(x) for x in v[na:])))
                init_args.append("%s=v_%s" % (fname, fname))
                free.append("  deallocate(v_%s%%b)" % fname)
            elif isinstance(v, np.ndarray):
                decl.append("  real*8 :: v_%s(%d)" % (fname, len(v)))
                setv.append("  v_%s = (/ %s /)" % (fname, ", ".join(lit(x) for x in v)))
                init_args.append("%s=v_%s" % (fname, fname))
            else:
                init_args.append("%s=%s" % (fname, lit(v)))
    L.extend(decl)
    a("  allocate(st)")
    a("  sp => st")
    L.extend(setv)
    a("  call dagrt_initialize(%s)" % ", &\n    ".join(init_args))
    L.extend(free)          # initialize() copies: the driver's own storage must not show up as a leak
    a("  read(*,*) nruns")
    a("  do r = 1, nruns")
    a("    call dagrt_run(dagrt_state=sp)")
    a("    write(*,'(A,I0)') 'STEP ', r")
    a("    write(*,'(A,I0)') 'PHASE ', st%dagrt_next_phase")
    for ir in pers:
        fname = nmgr.name_global(ir)
        if sc.types.get(ir) == "ut" and struct:
            a("    if (associated(st%%%s)) then" % fname)
            for mem, cnt in (("a", struct[0]), ("b", struct[1])):
                a("      do i = 1, %d" % cnt)
                a("        write(*,'(A,I0,A,%s)') 'A %s ', i, ' ', st%%%s%%%s(i)" % (FMT, ir, fname, mem))
                a("      end do")
            a("    else")
            a("      write(*,'(A)') 'U %s'" % ir)
            a("    end if")
        elif sc.types.get(ir) in ("ut", "utv"):
            a("    if (associated(st%%%s)) then" % fname)
            a("      do i = 1, %d" % ut_len(sc, ir))
            a("        write(*,'(A,I0,A,%s)') 'A %s ', i, ' ', st%%%s(i)" % (FMT, ir, fname))
            a("      end do")
            a("    else")
            a("      write(*,'(A)') 'U %s'" % ir)
            a("    end if")
        else:
            a("    write(*,'(A,%s)') 'S %s ', st%%%s" % (FMT, ir, fname))
    for comp in yields:
        rs, rt, ri = (nmgr.name_global("<ret_state>" + comp), nmgr.name_global("<ret_time>" + comp),
                      nmgr.name_global("<ret_time_id>" + comp))
        a("    if (associated(st%%%s)) then" % rs)
        if comp == "y" and struct:
            for mem, cnt in (("a", struct[0]), ("b", struct[1])):
                a("      do i = 1, %d" % cnt)
                a("        write(*,'(A,I0,A,%s)') 'A <ret_state>%s ', i, ' ', st%%%s%%%s(i)" % (FMT, comp, rs, mem))
                a("      end do")
        else:
            a("      do i = 1, %d" % (sc.M if comp == "v" else sc.N))
            a("        write(*,'(A,I0,A,%s)') 'A <ret_state>%s ', i, ' ', st%%%s(i)" % (FMT, comp, rs))
            a("      end do")
        a("    else")
        a("      write(*,'(A)') 'U <ret_state>%s'" % comp)
        a("    end if")
        a("    write(*,'(A,%s)') 'S <ret_time>%s ', st%%%s" % (FMT, comp, rt))
        a("    write(*,'(A,%s)') 'S <ret_time_id>%s ', st%%%s" % (FMT, comp, ri))
    a("    write(*,'(A)') 'END'")
    a("    flush(6)")
    a("  end do")
    a("  call dagrt_shutdown(dagrt_state=sp)")
    a("  deallocate(st)")
    a("  write(*,'(A)') 'SHUTDOWN-DONE'")
    a("end program")
    return "\n".join(L) + "\n"


def parse_output(out):
    steps = []
    cur = None
    done = False
    for ln in out.splitlines():
        ln = ln.strip()
        if ln.startswith("STEP "):
            cur = {"scal": {}, "arr": {}, "unset": set()}
        elif ln.startswith("PHASE ") and cur is not None:
            cur["phase"] = int(ln[6:])
        elif ln.startswith("S ") and cur is not None:
            _s, name, val = ln.split(None, 2)
            cur["scal"][name] = float(val)
        elif ln.startswith("A ") and cur is not None:
            _a, name, idx, val = ln.split(None, 3)
            cur["arr"].setdefault(name, []).append(float(val))
        elif ln.startswith("U ") and cur is not None:
            cur["unset"].add(ln[2:].strip())
        elif ln == "END" and cur is not None:
            steps.append(cur)
            cur = None
        elif ln == "SHUTDOWN-DONE":
            done = True
    return steps, done


_SCALE = [1.0]


def close(a, b):
    """relative 1e-12, plus an absolute term scaled by the largest magnitude that occurred in the
    interpreter run so far (cancellation: the interpreter adds with Python's compensated sum(),
    compiled code adds naively, so e.g. (2.5e-07 + 1.0) - 1.0 differs at 1e-17 absolute)."""
    if isinstance(a, (bool, np.bool_)):
        a = float(a)
    if a != a and b != b:
        return True
    if a == b:
        return True
    try:
        return abs(a - b) <= 1e-12 * max(abs(a), abs(b)) + 1e-13 * _SCALE[0] + 1e-300
    except Exception:
        return False


class ScaleStore(dict):
    """interpreter context that remembers the largest magnitude ever written"""
    scale = 1.0

    def __setitem__(self, k, v):
        try:
            m = float(np.max(np.abs(v))) if isinstance(v, np.ndarray) else abs(float(v))
            if m == m and m > self.scale and m < 1e300:
                self.scale = m
        except Exception:
            pass
        dict.__setitem__(self, k, v)


def const_scale(sc):
    from simdag.gen.expr import Const
    m = [1.0]

    def walk(e):
        if isinstance(e, Const) and not isinstance(e.v, bool):
            m[0] = max(m[0], abs(float(e.v)))
        for attr in ("a", "b", "c", "t", "e", "idx"):
            sub = getattr(e, attr, None)
            if sub is not None and hasattr(sub, "ev"):
                walk(sub)
        for x in getattr(e, "args", []) or []:
            if hasattr(x, "ev"):
                walk(x)
        for _k, x in getattr(e, "kwargs", []) or []:
            walk(x)

    def ops(os_):
        for op in os_:
            if op[0] == "assign":
                walk(op[3])
            elif op[0] == "call":
                walk(op[2])
            elif op[0] == "yield":
                walk(op[1])
                walk(op[3])
            elif op[0] == "if":
                walk(op[1][1])
                ops(op[2])
                if op[3]:
                    ops(op[3])
    for ph in sc.phases:
        ops(ph.ops)
    return m[0]


def interp_reference(ctx, code, twins, sc, n_runs, has_y):
    it = NumpyInterpreter(code, twins)
    store = ScaleStore()
    store.scale = const_scale(sc)
    it.context = store
    it.eval_mapper.context = store
    it.set_up(sc.t0, sc.dt0, {k: (v.copy() if isinstance(v, np.ndarray) else v) for k, v in sc.state0.items()})
    ref = []
    last = {}
    phases_sorted = sorted(code.phases)
    tids = sorted(set(_collect_tids(sc)))
    for r in range(n_runs):
        outcome = "completed"
        try:
            for ev in it.run_single_step():
                if type(ev).__name__ == "StateComputed":
                    v = ev.state_component
                    last[ev.component_id] = (np.array(v, dtype=float).copy(), float(ev.t), tids.index(ev.time_id))
        except FailStepException:
            outcome = "failed"
        except TransitionEvent as e:
            it.next_phase = e.next_phase
            outcome = "switched"
        except Exception as e:
            if type(e).__name__ in ("ErrA", "ErrB"):
                ref.append({"outcome": "raised", "kind": type(e).__name__})
                break
            raise Discard("ill-defined:interpreter-raises:" + type(e).__name__)
        store = {k: (np.array(v, dtype=float).copy() if isinstance(v, np.ndarray) else v)
                 for k, v in it.context.items() if is_persistent(k)}
        nan_ok = getattr(sc, "has_nan", False)     # (the script starts from a NaN on purpose)
        for k, v in store.items():
            if nan_ok:
                bad = bool(np.any(np.isinf(v))) if isinstance(v, np.ndarray) else (
                    not isinstance(v, (bool, np.bool_)) and math.isinf(v))
            else:
                bad = (not np.all(np.isfinite(v))) if isinstance(v, np.ndarray) else (
                    not isinstance(v, (bool, np.bool_)) and not math.isfinite(v))
            big = (np.any(np.abs(v) > 1e100)) if isinstance(v, np.ndarray) else (
                not isinstance(v, (bool, np.bool_)) and abs(v) > 1e100)
            if bad or big:
                raise Discard("ill-defined:magnitude")
        ref.append({"outcome": outcome, "phase": phases_sorted.index(it.next_phase), "store": store,
                    "scale": it.context.scale,
                    "ret": {c: (x[0].copy(), x[1], x[2]) for c, x in last.items()}})
    return ref


def _collect_tids(sc):
    out = []

    def rec(ops):
        for op in ops:
            if op[0] == "yield":
                out.append(op[4])
            elif op[0] == "if":
                rec(op[2])
                if op[3]:
                    rec(op[3])
    for ph in sc.phases:
        rec(ph.ops)
    return out


def script_reads_abs_array_result(sc):
    """the script assigns  b <- elementwise_abs(<array>)  and later subscripts b"""
    from simdag.gen.expr import Call, Sub, Var
    abs_targets = set()
    found = [False]

    def walk(e):
        if isinstance(e, Sub) and e.arr in abs_targets:
            found[0] = True
        for attr in ("a", "b", "c", "t", "e", "idx"):
            sub = getattr(e, attr, None)
            if sub is not None and hasattr(sub, "ev"):
                walk(sub)
        for x in getattr(e, "args", []) or []:
            if hasattr(x, "ev"):
                walk(x)
        for _k, x in getattr(e, "kwargs", []) or []:
            walk(x)

    def ops(os_):
        for op in os_:
            if op[0] == "call":
                e = op[2]
                if e.fn == "<builtin>elementwise_abs" and e.args and isinstance(e.args[0], Var) \
                        and isinstance(sc.types.get(e.args[0].name), tuple):
                    abs_targets.update(op[1])
                walk(e)
            elif op[0] == "assign":
                walk(op[3])
                if op[2] is not None:
                    walk(op[2])
            elif op[0] == "yield":
                walk(op[1])
            elif op[0] == "if":
                walk(op[1][1])
                ops(op[2])
                if op[3]:
                    ops(op[3])
    for _ in range(2):          # a second pass catches reads that precede the definition in another phase/step
        for ph in sc.phases:
            ops(ph.ops)
    return found[0]


def stmt_for_line(text, lineno):
    """map a line of the generated module back to the enclosing '! {{{ statement' comment."""
    lines = text.split("\n")
    for i in range(min(lineno, len(lines)) - 1, -1, -1):
        s = lines[i].strip()
        if s.startswith("! {{{ "):
            return s[6:]
        if s.startswith("subroutine "):
            return s
    return "?"


def classify_sanitizer(stderr, text):
    """-> (class, site, short) or None."""
    if "ERROR: AddressSanitizer" in stderr:
        m = re.search(r"ERROR: AddressSanitizer: ([\w-]+)", stderr)
        kind = m.group(1) if m else "unknown"
        cls = {"heap-use-after-free": "use-after-free", "attempting double-free": "double-free",
               "attempting": "double-free", "SEGV": "null-deref", "bad-free": "invalid-pointer",
               "heap-buffer-overflow": "out-of-bounds"}.get(kind, "asan:" + kind)
        fr = re.search(r"m\.f90:(\d+)", stderr)
        site = stmt_for_line(text, int(fr.group(1))) if fr else "?"
        sk = _site_kind(site)
        if cls == "out-of-bounds" and fr and reads_abs_array_result(text, int(fr.group(1)), site):
            sk = "element-of-elementwise_abs-array-result"
        return cls, sk, "%s at [%s]" % (kind, site)
    if "runtime error:" in stderr:
        m = re.search(r"m\.f90:(\d+):\d+: runtime error: (.*)", stderr)
        if m:
            site = stmt_for_line(text, int(m.group(1)))
            # (wild values and addresses differ from process to process)
            msg = re.sub(r"-?\d{7,}", "N", re.sub(r"0x[0-9a-fA-F]+", "0x..", m.group(2)))
            cls = "null-deref" if "null pointer" in msg else "ubsan"
            return cls, _site_kind(site), "%s at [%s]" % (msg[:120], site)
    if "ERROR: LeakSanitizer" in stderr:
        # first leak record: the innermost frame that is an IR statement (not a helper routine)
        first = stderr.split("Direct leak", 2)
        rec = first[1] if len(first) > 1 else stderr
        site = "?"
        for ln in re.findall(r"m\.f90:(\d+)", rec):
            site = stmt_for_line(text, int(ln))
            if not site.startswith("subroutine dagrt_alloc_check") and not site.startswith("subroutine dagrt_deinit"):
                break
        m = re.search(r"SUMMARY: AddressSanitizer: (\d+) byte\(s\) leaked in (\d+) allocation", stderr)
        return "leak", _site_kind(site), "%s allocated at [%s]" % (m.group(0)[28:] if m else "leak", site)
    if "leaked reference" in stderr:
        m = re.search(r"leaked reference in (\S+)", stderr)
        return "shutdown-reported-leak", m.group(1) if m else "?", stderr.strip()[:200]
    return None


def reads_abs_array_result(text, lineno, stmt_text):
    """does the statement subscript an array whose latest definition above it is
    '<name> <- <builtin>elementwise_abs(<array>)'?  (known finding: that result is 1-based)"""
    lines = text.split("\n")[:lineno]
    for name in set(re.findall(r"([A-Za-z_]\w*)\[", stmt_text)):
        for ln in reversed(lines):
            t_ = ln.strip()
            if t_.startswith("! {{{ %s <- " % name) or t_.startswith("! {{{ %s[" % name):
                if t_.startswith("! {{{ %s <- <builtin>elementwise_abs(" % name):
                    return True
                break
    return False


def _site_kind(site):
    """coarse, stable description of the IR statement for finding signatures."""
    if site.startswith("subroutine"):
        return site.split("(")[0]
    if "<-" in site:
        lhs, rhs = site.split("<-", 1)
        rhs = rhs.strip()
        if re.match(r"^<func>\w+\(", rhs):
            return "call"
        if re.match(r"^[\w<>]+$", rhs):
            return "move"
        return "assign"
    return site.split()[0] if site else "?"


def run_fortran_engine(ctx, prop):
    tape = ctx.tape
    c12 = prop == "C12"
    if shutil.which("gfortran") is None:
        raise RuntimeError("gfortran not available")
    with tape.span("knobs"):
        max_ops = [4, 7, 10][tape.draw(3, "max_ops")]
        n_runs = 1 + tape.draw(8, "n_runs")
        order_perm = tape.chance(0.5, "permute")
    gen = FortranGen(tape, max_ops=max_ops, c12_bias=c12, allow_raise=not c12)
    sc = gen.gen()
    try:
        ap = apply_script(sc)
    except Exception as e:
        raise Violation("builder-exception:" + type(e).__name__, "CodeBuilder rejected a valid call sequence: %r"
                        % (e,))
    ctx.decoded["script"] = sc.text(ap.nm)
    ctx.decoded["n_runs"] = n_runs
    phases = {}
    order = list(sc.phases)
    if order_perm:
        order = [order[i] for i in tape.perm(len(order), "phaseorder")]
    for ph in order:
        stmts = list(ap.builders[ph.name].statements)
        if order_perm:
            stmts = [stmts[i] for i in tape.perm(len(stmts), "storage")]
        phases[ph.name] = ExecutionPhase(ph.name, ph.next_phase, stmts)
    code = DAGCode(phases, sc.initial)
    freg, twins = make_registry(sc)
    has_y = sorted(set().union(*[yield_components(ph.ops) for ph in sc.phases]))
    with tape.span("generator_options"):
        # generator configuration: the instrumented variant (phase counters and timers around every phase)
        # must compute and release exactly what the plain one does
        cg_options = {}
        if tape.chance(0.45 if c12 else 0.25, "instrumentation"):
            cg_options = dict(emit_instrumentation=True, timing_function="second")
            ctx.count("probe:instrumented_module")
    with tape.span("earlier_generation"):
        if tape.chance(0.2, "earlier_generation"):
            # history: a separate generator object was given these very description objects before
            # (the description must come out of it as it went in)
            import contextlib as _cl
            import io as _io
            import dagrt.codegen.fortran as _f
            try:
                with _cl.redirect_stdout(_io.StringIO()):
                    _f.CodeGenerator("m0", function_registry=freg, user_type_map=user_type_map(sc),
                                     module_preamble=module_preamble(sc))(code)
            except Exception:
                pass
            ctx.count("probe:earlier_generation_from_same_objects")
    # ---- reference first (discards ill-defined programs before any compilation)
    ref = interp_reference(ctx, code, twins, sc, n_runs, has_y)
    if c12 and any(r["outcome"] == "raised" for r in ref):
        raise Discard("raise-stops-program")
    # ---- generate
    import dagrt.codegen.fortran as f
    from dagrt.data import UnableToInferKind
    from dagrt.function_registry import FunctionNotFound
    try:
        cg = f.CodeGenerator("m", function_registry=freg, user_type_map=user_type_map(sc),
                             module_preamble=module_preamble(sc), **cg_options)
        import contextlib
        import io
        buf = io.StringIO()
        with contextlib.redirect_stdout(buf):
            text = cg(code)
    except (UnableToInferKind, FunctionNotFound) as e:
        raise Discard("outside-subset:" + type(e).__name__)
    except RuntimeError as e:
        if "failed to infer kinds" in str(e):
            raise Discard("outside-subset:failed-to-infer-kinds")
        raise Violation("generator-exception:RuntimeError", "Fortran generator: %r" % (e,), site=_where(e))
    except Exception as e:
        raise Violation("generator-exception:" + type(e).__name__, "Fortran generator raised %r\n%s"
                        % (e, "".join(traceback.format_exception(type(e), e, e.__traceback__)[-3:])),
                        site=_where(e))
    _CUR_TEXT[0] = text
    pers = persistent_names(ap, sc)
    driver = make_driver(sc, cg.name_manager, pers, has_y, sc.N)
    d = tempfile.mkdtemp(prefix="dagrt-verif-f-", dir=scratch())
    try:
        with open(os.path.join(d, "m.f90"), "w") as fh:
            fh.write(text)
        with open(os.path.join(d, "driver.f90"), "w") as fh:
            fh.write(driver)
        flags = ["-g", "-O0", "-ffree-line-length-none", "-fno-range-check"]
        if c12:
            flags += ["-fsanitize=address,undefined", "-fno-omit-frame-pointer"]
        p = subprocess.run(["gfortran"] + flags + ["m.f90", "driver.f90", "-o", "prog"], cwd=d,
                           capture_output=True, text=True, timeout=300)
        if p.returncode != 0:
            errs = [ln for ln in p.stderr.splitlines() if ln.startswith("Error")]
            where = re.search(r"(m|driver)\.f90:(\d+)", p.stderr)
            site = "?"
            if where and where.group(1) == "m":
                site = stmt_for_line(text, int(where.group(2)))
            elif where:
                m_ = re.search(r"Type mismatch in argument .(state_\w+|p_\w+). at \(1\); passed REAL\(8\) to (\w+)",
                               errs[0] if errs else "")
                if m_:
                    # the driver hands every real state scalar / user-type component over as real*8, which is
                    # what the written program makes of it; the module declares something else
                    raise Violation("interface-kind", "the generated module declares %s as %s, the program "
                                    "computes real values for it (gfortran: %s)" % (m_.group(1), m_.group(2), errs[0]),
                                    site=m_.group(2))
                raise RuntimeError("driver does not compile: %s\n%s" % (errs[:1], driver))
            ctx.decoded["fortran_excerpt"] = _excerpt(text, int(where.group(2)) if where else 1)
            raise Violation("compile-error", "gfortran rejects the generated module: %s (in [%s])"
                            % (errs[0] if errs else p.stderr[-300:], site),
                            site=re.sub(r"[0-9]+", "N", (errs[0] if errs else "?"))[:80])
        ctx.count("probe:compiled")
        env = dict(os.environ, ASAN_OPTIONS="detect_leaks=1:halt_on_error=1:exitcode=23:allocator_may_return_null=1",
                   UBSAN_OPTIONS="print_stacktrace=1:halt_on_error=1", LSAN_OPTIONS="exitcode=23",
                   MALLOC_PERTURB_="165")
        n_call = n_runs
        first_raise = next((i for i, r in enumerate(ref) if r["outcome"] == "raised"), None)
        # address-space layout randomisation off: what a program with undefined behaviour does (a stale
        # pointer, an uninitialised component) then repeats from run to run, so such failures replay
        cmd = [os.path.join(d, "prog")]
        if _SETARCH[0] is None:
            _SETARCH[0] = shutil.which("setarch") or ""
            if _SETARCH[0] and subprocess.run([_SETARCH[0], "-R", "true"], capture_output=True).returncode != 0:
                _SETARCH[0] = ""
        if _SETARCH[0]:
            cmd = [_SETARCH[0], "-R"] + cmd
        q = subprocess.run(cmd, input="%d\n" % n_call, cwd=d, env=env,
                           capture_output=True, text=True, timeout=120)
        steps, done = parse_output(q.stdout)
        stderr = q.stderr
        outcomes = [r["outcome"] for r in ref]
        ctx.decoded["step_outcomes"] = outcomes
        if c12:
            verdict = classify_sanitizer(stderr, text)
            if verdict is not None:
                cls, site, short = verdict
                raise Violation(cls, "after %d run calls (%s) + shutdown: %s\n%s"
                                % (n_runs, ",".join(outcomes), short, _trim(stderr)), site=site)
            if q.returncode != 0 or not done:
                raise Violation("crash", "exit status %d, shutdown %s: %s" % (q.returncode,
                                "completed" if done else "not reached", _trim(stderr)), site="exit")
            if stderr.strip():
                raise Violation("stderr", "program wrote to stderr: %s" % _trim(stderr), site="stderr")
            ctx.count("probe:shutdown_ok")
        else:
            if first_raise is not None:
                want_steps = first_raise
                if len(steps) != want_steps or ref[first_raise]["kind"] not in stderr:
                    raise Violation("stderr", "interpreter raises %s in step %d; program printed %d steps, stderr %r"
                                    % (ref[first_raise]["kind"], first_raise, len(steps), _trim(stderr)),
                                    site="raise")
            else:
                if q.returncode != 0 or stderr.strip() or len(steps) != n_runs or not done:
                    raise Violation("crash" if q.returncode != 0 else "stderr",
                                    "exit status %d, %d of %d steps printed, stderr: %s"
                                    % (q.returncode, len(steps), n_runs, _trim(stderr)),
                                    site="exit" if q.returncode != 0 else "stderr")
            try:
                compare_steps(ctx, steps, ref, sc, has_y, set(pers))
            except Violation as v:
                if v.cls in ("state-mismatch", "ret-mismatch") and script_reads_abs_array_result(sc):
                    raise Violation(v.cls, v.detail + "  [program reads an element of an elementwise_abs(array) "
                                    "result]", site="after-element-of-elementwise_abs-array-result")
                raise
    finally:
        shutil.rmtree(d, ignore_errors=True)
    ctx.count("probe:step_failed", outcomes.count("failed"))
    ctx.count("probe:step_switched", outcomes.count("switched"))
    if prop == "C03":        # (C12 excludes raising scripts by construction)
        ctx.count("probe:step_raised", outcomes.count("raised"))
    ctx.count("fault:step_cut_short_by_failstep", outcomes.count("failed"))
    ctx.count("fault:step_cut_short_by_switch", outcomes.count("switched"))
    ctx.count("fault:step_cut_short_by_raise", outcomes.count("raised"))
    if order_perm:
        ctx.count("fault:storage_order_permuted")
    ctx.count("sum:steps", len(outcomes))
    try:
        t_last = [r["store"].get("<t>") for r in ref if "store" in r][-1]
        ctx.count("sum:simulated_time", round(min(abs(float(t_last) - float(sc.t0)), 1e3), 6))
    except Exception:
        pass
    n_moves = sum(1 for ph in sc.phases for op in _flat_ops(ph.ops)
                  if op[0] == "assign" and sc.types.get(op[1]) in ("ut", "utv") and type(op[3]).__name__ == "Var")
    if n_moves:
        ctx.count("probe:ut_move", n_moves)
    n_ut_temps = len([n for n, ty in sc.types.items() if ty in ("ut", "utv") and not n.startswith("<")])
    if getattr(sc, "n_shrink", 0):
        ctx.count("probe:array_overwritten_with_other_length", sc.n_shrink)
    if getattr(sc, "n_condpair", 0):
        ctx.count("probe:same_condition_twice", sc.n_condpair)
    if getattr(sc, "has_nan", False):
        ctx.count("probe:nan_in_initial_state")
    if getattr(sc, "n_poly", 0):
        ctx.count("probe:name_scalar_in_one_phase_array_in_another")
    if getattr(sc, "n_twin", 0):
        ctx.count("probe:twin_phase", sc.n_twin)
    if getattr(sc, "struct", None):
        ctx.count("probe:structure_user_type")
    if getattr(sc, "has_v", False):
        ctx.count("probe:two_user_types")
    if n_ut_temps:
        ctx.count("probe:ut_temporaries", n_ut_temps)
        if "failed" in outcomes or "switched" in outcomes:
            ctx.count("probe:ut_temp_live_across_exit")
    ctx.nontrivial = len(outcomes) >= 2
    ctx.dkey(sc.shape_sig, outcomes)
    ctx.log.add(prop, outcomes)
    ctx.sample = {"script": ctx.decoded["script"][:14], "run_calls": n_runs, "step_outcomes": outcomes}


def _flat_ops(ops):
    for op in ops:
        if op[0] == "if":
            yield from _flat_ops(op[2])
            if op[3]:
                yield from _flat_ops(op[3])
        else:
            yield op


def _excerpt(text, lineno, radius=4):
    lines = text.split("\n")
    lo, hi = max(0, lineno - radius - 1), min(len(lines), lineno + radius)
    return ["%d: %s" % (i + 1, lines[i]) for i in range(lo, hi)]


_CUR_TEXT = [None]
_SETARCH = [None]


def _trim(s, n=1200):
    """stderr made reproducible: no addresses, pids, thread ids, scratch paths or raw line numbers
    (lines of the generated module are mapped back to their IR statement)."""
    s = s.strip()
    if _CUR_TEXT[0] is not None:
        s = re.sub(r"m\.f90:(\d+)(:\d+)?", lambda m: "m.f90:[%s]" % stmt_for_line(_CUR_TEXT[0], int(m.group(1))), s)
    s = re.sub(r"0x[0-9a-fA-F]+", "0x..", s)
    s = re.sub(r"==\d+==", "==N==", s)
    s = re.sub(r"/\S*dagrt-verif-f-\w+/", "", s)
    s = re.sub(r"\(BuildId: \w+\)", "", s)
    s = re.sub(r"T\d+", "T0", s)
    # values read through wild pointers differ from process to process (address-space layout)
    s = re.sub(r"-?\d{7,}", "N", s)
    keep = [ln for ln in s.splitlines() if "m.f90" in ln or "ERROR" in ln or "SUMMARY" in ln
            or "leaked" in ln or "runtime error" in ln or "refcount" in ln or "Direct leak" in ln]
    s = "\n".join(keep[:14]) if keep else s
    return s if len(s) <= n else s[:n] + " ..."


def _where(e):
    tb = traceback.extract_tb(e.__traceback__)
    where = [fr.name for fr in tb if "/dagrt/" in fr.filename]
    return where[-1] if where else "?"


def compare_steps(ctx, steps, ref, sc, has_y, pers):
    for i, (got, want) in enumerate(zip(steps, ref)):
        if want["outcome"] == "raised":
            break
        where = "after run call %d (interpreter step %s)" % (i + 1, want["outcome"])
        _SCALE[0] = want.get("scale", 1.0)
        if got.get("phase") != want["phase"]:
            raise Violation("next-phase-mismatch", "%s: next phase index %r, interpreter %r"
                            % (where, got.get("phase"), want["phase"]), site=want["outcome"])
        for k, v in sorted(want["store"].items()):
            if k not in pers:
                continue        # given to set_up but never mentioned by the program
            if isinstance(v, np.ndarray):
                g = got["arr"].get(k)
                if g is None or len(g) != len(v) or not all(close(a, b) for a, b in zip(g, v.tolist())):
                    raise Violation("state-mismatch", "%s: %s = %r, interpreter %r" % (where, k, g, v.tolist()),
                                    site="usertype")
            elif k in got["scal"]:
                if not close(got["scal"][k], v):
                    raise Violation("state-mismatch", "%s: %s = %r, interpreter %r" % (where, k, got["scal"][k], v),
                                    site="scalar" if k not in ("<t>", "<dt>") else k)
        for comp in sorted(want["ret"]):
            ctx.count("probe:ret_compared")
            rv, rt, ri = want["ret"][comp]
            g = got["arr"].get("<ret_state>" + comp)
            if g is None or len(g) != len(rv) or not all(close(a, b) for a, b in zip(g, rv.tolist())):
                raise Violation("ret-mismatch", "%s: returned state of component %s %r, interpreter yielded %r"
                                % (where, comp, g, rv.tolist()), site="state")
            if not close(got["scal"].get("<ret_time>" + comp), rt):
                raise Violation("ret-mismatch", "%s: returned time of component %s %r, interpreter %r"
                                % (where, comp, got["scal"].get("<ret_time>" + comp), rt), site="time")
            if not close(got["scal"].get("<ret_time_id>" + comp), float(ri)):
                raise Violation("ret-mismatch", "%s: returned time id of component %s %r, interpreter %r"
                                % (where, comp, got["scal"].get("<ret_time_id>" + comp), ri), site="time_id")


def run_c03(ctx):
    run_fortran_engine(ctx, "C03")


def run_c12(ctx):
    run_fortran_engine(ctx, "C12")
