"""E-det: C15 (generated text is a pure function of the method description) and
C14 (kind inference is order-independent; unification is a partial join).

The parent (hash seed 0) owns the tape; worker subprocesses are started with
PYTHONHASHSEED=h for drawn h and receive jobs that carry only tape slices and
integers.  Answers are compared with the canonical worker (h=0, builder order,
empty history).
"""
import difflib
import itertools
import json
import os
import subprocess
import sys

from simdag.core.outcome import Discard, Violation
from simdag.core.tape import Tape
from simdag.gen.kinds import KIND_UNIVERSE, make_kind

META = {
 "C15": {
    "level": "exploration",
    "quick_runs": 160,
    "block": 4,
    "block_limit": 1500,
    "thorough_budget_s": 900,
    "min_runs": 40,
    "min_s": 120.0,
    "rule": ("one run = one seeded builder program for the Python generator/interpreter and one Fortran-subset "
             "program; a canonical worker (PYTHONHASHSEED=0, builder order, empty history) and 2..3 workers with "
             "drawn hash seeds, drawn container orders (statement list order, per-set dependency iteration order, "
             "phases dict order for Fortran/interpreter) and a drawn history of 0..3 earlier generator invocations "
             "(other programs, a generator that raises half-way, type constructions, interpreter runs) produce "
             "Python text, Fortran text and the interpreter's 3-step event log; all must equal the canonical "
             "answer byte for byte. distinct = (programs, hash seed, order seed, history) hash; non-trivial = a "
             "comparison with a worker whose hash seed, order or history differs from the canonical one"),
    "real": ["PythonCodeGenerator", "dagrt.codegen.fortran.CodeGenerator (whole pipeline)", "NumpyInterpreter",
             "CodeBuilder.as_execution_phase (frozenset of statements) for the canonical interpreter run"],
    "stub": ["process configuration (PYTHONHASHSEED) and history (earlier jobs in the same worker)",
             "container orders (worker-seeded OrdFS / list shuffles)"],
    "assumptions": ["the Python generator's phase emission order follows dag.phases insertion order, which the "
                    "property does not list: phase order is kept fixed for the Python text",
                    "user types are built with explicit index_vars (ArrayType's default names come from a "
                    "process-global counter advanced by constructing types, not by a generator object)",
                    "interpreter logs are compared only for programs whose first steps are well defined"],
    "probes": ["hashseed_differs", "order_differs", "history_nonempty", "history_raises", "fortran_compared",
               "interp_compared", "same_description_objects_used_before",
               "user_types_name_their_own_index_variables", "instrumented_module_text", "state_update_hooks"],
 },
 "C14": {
    "level": "exploration",
    "quick_runs": 400,
    "block": 10,
    "block_limit": 1500,
    "thorough_budget_s": 900,
    "min_runs": 60,
    "min_s": 120.0,
    "rule": ("one run = (b) update level, in process: a drawn multiset of set(phase, name, kind) messages over the "
             "kind universe {Boolean, Integer, Scalar real/complex, Array real/complex, UserType a/b} delivered to "
             "a real SymbolKindTable in 2..6 drawn orders with duplicates, plus unify() itself on drawn pairs and "
             "triples in both argument orders and both groupings with None as neutral element; and for every "
             "second run (a) program level, in worker subprocesses: a Fortran-subset or kind-adversarial program "
             "presented to the real SymbolKindFinder in builder order and 2..4 drawn permutations of statements "
             "and phases under 2..3 hash seeds. distinct = (messages/orders, program, permutations, hash seeds) "
             "hash; non-trivial = >=2 different kinds met for one name, or a permuted/other-hash-seed inference ran"),
    "real": ["dagrt.data.unify", "dagrt.data.SymbolKindTable.set", "dagrt.data.SymbolKindFinder / KindInferenceMapper",
             "function registry result kinds"],
    "stub": ["delivery order / duplication of kind updates", "presentation order of statements and phases",
             "PYTHONHASHSEED of the inferring process"],
    "assumptions": ["delivery-order independence is required only for message sets on which no explored order "
                    "hits a failing unification (conflicting kinds are an ill-kinded program; failures are printed "
                    "and ignored by design)"],
    "probes": ["pair_defined_both", "pair_undefined_both", "triple_checked", "delivery_conflict_free",
               "delivery_conflicting", "program_level", "inference_failed_consistently",
               "statement_ids_repeat_across_phases", "phase_without_statements", "public_infer_kinds_entry",
               "long_chain_program", "finder_object_used_before"],
 },
}

HOME = os.environ.get("VERIF_HOME", "/verif")


def run_workers(requests):
    """requests: list of (hashseed, jobs).  Starts one fresh interpreter per request (in parallel)."""
    procs = []
    for h, jobs in requests:
        env = dict(os.environ, PYTHONHASHSEED=str(h), PYTHONDONTWRITEBYTECODE="1")
        p = subprocess.Popen([sys.executable, os.path.join(HOME, "simdag", "seams", "hashworker.py")],
                             stdin=subprocess.PIPE, stdout=subprocess.PIPE, stderr=subprocess.PIPE, env=env,
                             text=True)
        procs.append((p, jobs))
    results = []
    for p, jobs in procs:
        out, err = p.communicate(json.dumps(jobs), timeout=600)
        if p.returncode != 0:
            raise RuntimeError("hash worker failed: %s" % err[-1500:])
        doc = json.loads(out)
        for a in doc["answers"]:
            if "error" in a:
                raise RuntimeError("hash worker job failed: %s" % a["error"])
        results.append(doc["answers"])
    return results


def sub_values(tape, fn):
    """run a generator on the parent's tape and return the slice of values it consumed."""
    start = len(tape.values)
    res = fn()
    return res, list(tape.values[start:])


def first_diff(a, b, n=12):
    d = list(difflib.unified_diff(a.splitlines(), b.splitlines(), "canonical", "other", lineterm="", n=1))
    return "\n".join(d[:n])


def run_c15(ctx):
    from simdag.gen.expr import IllDefined
    from simdag.gen.fortran_subset import FortranGen
    from simdag.gen.script import ScriptGen, apply_script
    from simdag.model.refstepper import RefStepper
    tape = ctx.tape
    with tape.span("pyprog"):
        force = ("phases", "switch") if tape.chance(0.5, "force_switch") else ()
        cfg = {"phase_names": ["main", "p2", "init", "primary"]} if force and tape.chance(0.7, "four") else None
        sc, py_values = sub_values(tape, lambda: ScriptGen(tape, max_ops=8, max_phases=3, force=force, cfg=cfg).gen())
    py_kw = {"force": list(force), "cfg": cfg}
    with tape.span("fprog"):
        scf, f_values = sub_values(tape, lambda: FortranGen(tape, max_ops=7).gen())
    # is the interpreter log comparable?  (well-defined first steps)
    want_interp = True
    try:
        ap = apply_script(sc)
        ref = RefStepper(sc, ap.nm)
        ref.set_up(sc.t0, sc.dt0, sc.state0)
        ref.run(max_steps=3, event_cap=40)
    except IllDefined:
        want_interp = False
    except Exception:
        want_interp = False
    ctx.decoded["py_script"] = sc.text()
    ctx.decoded["f_script"] = scf.text()
    with tape.span("ids"):
        id_salt = tape.draw(4, "id_salt") if tape.chance(0.35, "handwritten_ids") else None
    if id_salt is not None:
        ctx.count("probe:handwritten_style_ids")
    with tape.span("index_vars"):
        default_index_vars = tape.chance(0.4, "default_index_vars")
    if default_index_vars:
        ctx.count("probe:user_types_name_their_own_index_variables")
    with tape.span("f_options"):
        f_options = {"instrumented": tape.chance(0.35, "instrumented")}
        f_options["hooks"] = tape.chance(0.5, "hooks") if f_options["instrumented"] else tape.chance(0.15, "hooks")
    if f_options["instrumented"]:
        ctx.count("probe:instrumented_module_text")
    if f_options["hooks"]:
        ctx.count("probe:state_update_hooks")
    base = {"type": "c15", "py_values": py_values, "f_values": f_values, "want_interp": want_interp,
            "id_salt": id_salt, "py_kw": py_kw, "default_index_vars": default_index_vars, "f_options": f_options}
    # a few more small multi-phase programs with guarded switches, Python text only (cheap)
    with tape.span("extra_py"):
        extra = []
        for _ in range(4):
            te = Tape(seed=tape.draw(1 << 30, "extra_seed"))
            ScriptGen(te, max_ops=6, max_phases=3, force=("phases", "switch"),
                      cfg={"phase_names": ["main", "p2", "init", "primary"]}).gen()
            extra.append(list(te.values))
        base["extra_py"] = extra
    canonical = dict(base, order_seed=None, history=[])
    # in the canonical worker's own process: another program, then the same programs again under a
    # drawn container order -- its history then contains a generation of the very same method
    with tape.span("again"):
        t2 = Tape(seed=tape.draw(1 << 30, "qseed"))
        ScriptGen(t2, max_ops=6).gen()
        t3 = Tape(seed=tape.draw(1 << 30, "qfseed"))
        FortranGen(t3, max_ops=6).gen()
        q_job = {"type": "c15", "py_values": list(t2.values), "f_values": list(t3.values), "want_interp": False,
                 "order_seed": None, "history": []}
        again = dict(base, order_seed=1 + tape.draw(1 << 20, "again_order"), history=[])
    requests = [(0, [canonical, q_job, again])]
    configs = []
    with tape.span("configs"):
        n_cfg = 2 + tape.draw(2, "ncfg")
        for ci in range(n_cfg):
            with tape.span("config"):
                h = tape.draw(64, "hashseed") if tape.chance(0.8, "newhash") else 0
                order_seed = (1 + tape.draw(1 << 20, "order_seed")) if tape.chance(0.7, "reorder") else None
                hist = []
                for _ in range(tape.weighted([3, 2, 1, 1], "nhist")):
                    with tape.span("history"):
                        kind = ["py", "fortran", "fortran_raises", "types", "interp"][tape.draw(5, "hkind")]
                        if kind == "types":
                            hist.append({"kind": "types", "n": 1 + tape.draw(12, "ntypes")})
                        elif kind in ("py", "interp"):
                            t2 = Tape(seed=tape.draw(1 << 30, "hseed"))
                            ScriptGen(t2, max_ops=6).gen()
                            hist.append({"kind": kind, "values": list(t2.values),
                                         "order_seed": 1 + tape.draw(100, "hos")})
                        else:
                            t2 = Tape(seed=tape.draw(1 << 30, "hseed"))
                            FortranGen(t2, max_ops=5).gen()
                            hist.append({"kind": kind, "values": list(t2.values)})
                reuse = []
                if tape.chance(0.5, "reuse"):
                    for _ in range(1 + tape.draw(2, "nreuse")):
                        reuse.append(["py", "py_plain", "interp", "interp_shared", "fortran"][tape.draw(5, "rkind")])
                    hist = hist + [{"kind": "same-objects:" + r} for r in reuse]
                configs.append((h, order_seed, hist))
                requests.append((h, [dict(base, order_seed=order_seed,
                                          history=[x for x in hist if not x["kind"].startswith("same-objects")],
                                          reuse=reuse)]))
    answers = run_workers(requests)
    can = answers[0][0]
    nontrivial = False
    configs = [(0, again["order_seed"], [{"kind": "same-method-earlier"}, {"kind": "other-method"}])] + configs
    all_answers = [[answers[0][2]]] + answers[1:]
    for (h, order_seed, hist), ans in zip(configs, all_answers):
        a = ans[0]
        dims = []
        if h != 0:
            dims.append("hashseed")
            ctx.count("probe:hashseed_differs")
            ctx.count("fault:hash_seed_changed")
        if order_seed is not None:
            dims.append("order")
            ctx.count("probe:order_differs")
            ctx.count("fault:container_order_permuted")
        if hist:
            dims.append("history")
            ctx.count("probe:history_nonempty")
            ctx.count("fault:history_pollution", len(hist))
            if any(x["kind"] == "fortran_raises" for x in hist):
                ctx.count("probe:history_raises")
            if any(x["kind"].startswith("same-objects") for x in hist):
                ctx.count("probe:same_description_objects_used_before")
        if dims:
            nontrivial = True
        dim = "+".join(dims) or "none"
        label = "worker PYTHONHASHSEED=%d order_seed=%r history=%r" % (h, order_seed, [x["kind"] for x in hist])
        for key, cls in (("python", "python-text"), ("python_extra", "python-text"), ("fortran", "fortran-text"),
                         ("interp", "interpreter-log")):
            exc_key = {"python": "python_exc", "fortran": "fortran_exc", "interp": "python_exc",
                       "python_extra": "python_exc"}[key]
            if key not in can and exc_key in can:
                # canonical generation failed: every worker must fail the same way
                if can.get(exc_key) != a.get(exc_key) and key != "interp":
                    raise Violation(cls + ":outcome", "%s: generator outcome %r, canonical %r"
                                    % (label, a.get(exc_key, "text"), can.get(exc_key)), site=dim)
                continue
            if key not in can:
                continue
            if key not in a:
                raise Violation(cls + ":outcome", "%s: generator failed with %r, canonical produced text"
                                % (label, a.get(exc_key)), site=dim)
            if a[key] != can[key]:
                ctx.decoded["diff"] = first_diff(can[key], a[key], 40)
                raise Violation(cls, "%s: %s differs from the canonical worker (PYTHONHASHSEED=0, builder order, "
                                "no history):\n%s" % (label, key, first_diff(can[key], a[key])), site=dim)
            if key == "fortran":
                ctx.count("probe:fortran_compared")
            if key == "interp":
                ctx.count("probe:interp_compared")
        ctx.dkey(h, order_seed, [x["kind"] for x in hist])
    ctx.decoded["configs"] = [{"hashseed": h, "order_seed": o, "history": [x["kind"] for x in hist]}
                              for h, o, hist in configs]
    ctx.nontrivial = nontrivial
    ctx.dkey(sc.shape_sig, scf.shape_sig)
    ctx.log.add("c15", [c[:2] for c in configs])
    ctx.sample = {"py_script": ctx.decoded["py_script"][:8], "f_script": ctx.decoded["f_script"][:8],
                  "configs": ctx.decoded["configs"]}


# ------------------------------------------------------------------------------------------- C14

def kr(k):
    if k is None:
        return "None"
    args = k.__getinitargs__()
    return type(k).__name__ + (repr(tuple(args)) if args else "")


def try_unify(a, b):
    from dagrt.data import unify
    try:
        return ("ok", kr(unify(a, b)))
    except Exception as e:
        return ("fail", type(e).__name__)


def run_c14(ctx):
    import contextlib
    import io
    import dagrt.data as data
    tape = ctx.tape
    U = KIND_UNIVERSE
    nontrivial = False
    # ---- merge function: pairs and triples
    with tape.span("pairs"):
        for _ in range(4):
            an, bn = U[tape.draw(len(U), "ka")], U[tape.draw(len(U), "kb")]
            a, b = make_kind(an), make_kind(bn)
            ab, ba = try_unify(a, b), try_unify(b, a)
            ctx.dkey("pair", an, bn)
            if ab[0] != ba[0] or (ab[0] == "ok" and ab[1] != ba[1]):
                raise Violation("merge-noncommutative", "unify(%s, %s) -> %s but unify(%s, %s) -> %s"
                                % (an, bn, ab, bn, an, ba), site=",".join(sorted(set([an.split("_")[0], bn.split("_")[0]]))))
            ctx.count("probe:pair_defined_both" if ab[0] == "ok" else "probe:pair_undefined_both")
            # idempotent, also for an equal kind that is another object (made separately, as kinds are)
            for twin in (a, make_kind(an)):
                aa = try_unify(a, twin)
                if an != "Boolean" and aa != ("ok", kr(a)):
                    raise Violation("merge-nonidempotent", "unify(%s, %s) -> %s%s" % (
                        an, an, aa, "" if twin is a else " for two equal kinds that are distinct objects"), site=an)
                if an == "Boolean" and aa[0] == "ok" and aa[1] != kr(a):
                    raise Violation("merge-nonidempotent", "unify(%s, %s) -> %s" % (an, an, aa), site=an)
            for x in (a,):
                n1, n2 = try_unify(None, x), try_unify(x, None)
                if n1 != ("ok", kr(x)) or n2 != ("ok", kr(x)):
                    raise Violation("merge-neutral", "None is not neutral for %s: %s / %s" % (an, n1, n2), site=an)
    with tape.span("triples"):
        for _ in range(3):
            names = [U[tape.draw(len(U), "kt")] for _ in range(3)]
            a, b, c = [make_kind(n) for n in names]
            ctx.count("probe:triple_checked")
            results = set()
            detail = []
            for perm in itertools.permutations(range(3)):
                x, y, z = [(a, b, c)[i] for i in perm]
                # left grouping (x.y).z and right grouping x.(y.z)
                for grouping in ("left", "right"):
                    try:
                        r = data.unify(data.unify(x, y), z) if grouping == "left" else data.unify(x, data.unify(y, z))
                        res = ("ok", kr(r))
                    except Exception:
                        res = ("fail",)
                    results.add(res)
                    detail.append(("%s %s" % ([names[i] for i in perm], grouping), res))
            if len(results) > 1:
                raise Violation("merge-nonassociative", "combining %r gives different outcomes depending on order/"
                                "grouping: %r" % (names, sorted(set(detail), key=str)[:6]),
                                site=",".join(sorted(set(n.split("_")[0] for n in names))))
    # ---- update level: delivery orders to a real SymbolKindTable
    with tape.span("delivery"):
        n_names = 1 + tape.draw(3, "nnames")
        var_names = ["x", "<p>g", "y"][:n_names]
        msgs = []
        for vn in var_names:
            k = 2 + tape.draw(3, "nmsg")
            fam = tape.draw(4, "family")
            pool = [["Integer", "Scalar_r", "Scalar_c"], ["Integer", "Scalar_r", "Array_r", "Array_c", "Scalar_c"],
                    ["Integer", "Scalar_r", "UT_a", "Scalar_c"], U][fam]
            for _ in range(k):
                msgs.append((vn, pool[tape.draw(len(pool), "mk")]))
        n_orders = 2 + tape.draw(5, "norders")
        outcomes = []
        failures_any = False
        failures_all = True
        calls = []
        orig_unify = data.unify

        def spy(x, y):
            try:
                return orig_unify(x, y)
            except Exception:
                calls.append("fail")
                raise
        data.unify = spy
        try:
            for oi in range(n_orders):
                with tape.span("order"):
                    order = tape.perm(len(msgs), "deliv") if oi > 0 else list(range(len(msgs)))
                    dup = [i for i in order if tape.chance(0.25, "dup")] if oi > 0 else []
                    seq = [msgs[i] for i in order] + [msgs[i] for i in dup]
                    if dup:
                        ctx.count("fault:update_duplicated", len(dup))
                    if oi > 0 and order != list(range(len(msgs))):
                        ctx.count("fault:update_reordered")
                tbl = data.SymbolKindTable()
                del calls[:]
                buf = io.StringIO()
                with contextlib.redirect_stdout(buf):
                    for vn, kn in seq:
                        tbl.set("main", vn, kind=make_kind(kn))
                failed = bool(calls)
                failures_any = failures_any or failed
                failures_all = failures_all and failed
                final = sorted((n, kr(k)) for n, k in list(tbl.global_table.items())
                               + list(tbl.per_phase_table.get("main", {}).items()) if n not in ("<t>", "<dt>"))
                outcomes.append((failed, final, seq))
        finally:
            data.unify = orig_unify
        if len(set(kn for _v, kn in msgs)) > 1:
            nontrivial = True
        if not failures_any:
            ctx.count("probe:delivery_conflict_free")
            finals = [json.dumps(o[1]) for o in outcomes]
            if len(set(finals)) > 1:
                i = next(i for i, f in enumerate(finals) if f != finals[0])
                raise Violation("delivery-order-dependent", "kind updates %r give table %r, delivered as %r they "
                                "give %r" % (outcomes[0][2], outcomes[0][1], outcomes[i][2], outcomes[i][1]),
                                site="table")
        elif not failures_all:
            i = next(i for i, o in enumerate(outcomes) if o[0])
            j = next(i for i, o in enumerate(outcomes) if not o[0])
            raise Violation("delivery-order-dependent", "kind updates delivered as %r unify without failure (table "
                            "%r) but delivered as %r a unification fails and is ignored (table %r)"
                            % (outcomes[j][2], outcomes[j][1], outcomes[i][2], outcomes[i][1]), site="failure")
        else:
            ctx.count("probe:delivery_conflicting")
        ctx.dkey("deliv", msgs)
    # ---- program level (worker subprocesses), every second run
    with tape.span("program"):
        if tape.chance(0.5, "proglevel"):
            source = ["fortran", "adversarial", "adversarial", "chain"][tape.draw(4, "source")]
            if source == "fortran":
                from simdag.gen.fortran_subset import FortranGen
                _sc, values = sub_values(tape, lambda: FortranGen(tape, max_ops=8).gen())
            elif source == "chain":
                from simdag.gen.kinds import chain
                _p, values = sub_values(tape, lambda: chain(tape))
                ctx.count("probe:long_chain_program")
            else:
                from simdag.gen.kinds import adversarial
                _p, values = sub_values(tape, lambda: adversarial(tape))
            base = {"type": "c14", "values": values, "source": source}
            if tape.chance(0.3, "same_ids"):
                base["same_ids"] = True
                ctx.count("probe:statement_ids_repeat_across_phases")
            if tape.chance(0.3, "empty_phase"):
                base["empty_phase"] = tape.draw(4, "empty_at")
                ctx.count("probe:phase_without_statements")
            n_perm = 2 + tape.draw(3, "nperm")
            perms = [None] + [1 + tape.draw(1 << 20, "perm_seed") for _ in range(n_perm)]
            hs = [0, 1 + tape.draw(63, "hashseed")]
            as_iter = [False] + [tape.chance(0.4, "as_iter") for _ in perms[1:]]
            if any(as_iter):
                ctx.count("fault:phases_as_one_shot_iterables", sum(as_iter))
            via = [False] + [tape.chance(0.4, "via_infer_kinds") for _ in perms[1:]]
            used_before = [False] + [tape.chance(0.3, "finder_used_before") for _ in perms[1:]]
            if any(used_before):
                ctx.count("probe:finder_object_used_before")
                ctx.count("fault:finder_history", sum(used_before))
            if any(v and not ai for v, ai in zip(via, as_iter)):
                ctx.count("probe:public_infer_kinds_entry")
            requests = [(h, [dict(base, perm_seed=p, as_iter=ai, via_infer_kinds=v, finder_used_before=ub)
                             for p, ai, v, ub in zip(perms, as_iter, via, used_before)]) for h in hs]
            answers = run_workers(requests)
            can = answers[0][0]
            ctx.count("probe:program_level")
            ctx.count("fault:hash_seed_changed", len(hs) - 1)
            ctx.count("fault:presentation_permuted", n_perm * len(hs))
            if can["outcome"] != "table":
                ctx.count("probe:inference_failed_consistently")
            for h, ans in zip(hs, answers):
                for p, a in zip(perms, ans):
                    label = "PYTHONHASHSEED=%d, presentation %s" % (h, "as written" if p is None else
                                                                    "permuted (seed %d)" % p)
                    if a["outcome"] != can["outcome"]:
                        raise Violation("outcome-order-dependent", "%s: inference outcome %s, canonical %s (%s "
                                        "program)" % (label, a["outcome"], can["outcome"], source),
                                        site="hashseed" if p is None else "order")
                    if a["outcome"] == "table" and (a["global"] != can["global"] or a["per_phase"] != can["per_phase"]):
                        diff = [(x, y) for x, y in zip(a["global"] + sum([t for _p, t in a["per_phase"]], []),
                                                       can["global"] + sum([t for _p, t in can["per_phase"]], []))
                                if x != y][:4]
                        raise Violation("table-order-dependent", "%s: kind table differs from the canonical one: %r"
                                        % (label, diff), site="hashseed" if p is None else "order")
            nontrivial = True
            ctx.dkey("prog", source, perms, hs)
    ctx.nontrivial = nontrivial
    ctx.log.add("c14", len(msgs))
    ctx.sample = {"messages": msgs, "delivery_orders": n_orders,
                  "final_table": outcomes[0][1] if outcomes else None}
