"""C16 — fusing two methods runs both on shared persistent state without interference.

Real: dagrt.transform.fuse_two_dags / fuse_two_phases, pymbolic's
disambiguate_and_fuse, map_expressions(include_lhs=True) of every statement
kind, verify_code, interpreter exec_*.  Simulated: the interleaving of the two
origins' statements (linear extensions of the fused graph), the renaming
predicate, the initial store.
"""
import traceback

import numpy as np

from dagrt.codegen.analysis import verify_code
from dagrt.language import DAGCode, ExecutionPhase
from dagrt.transform import fuse_two_dags
from simdag.engines.names import is_state_variable      # the model's own classification, not dagrt's

from simdag.core.outcome import Discard, Violation
from simdag.engines.sched import Exec, _sv, ancestors, random_extension
from simdag.gen.script import ScriptGen, apply_script, script_names
from simdag.model.refstepper import is_persistent, same_value
from simdag.seams.store import copy_store

META = {"C16": {
    "level": "exploration",
    "quick_runs": 10000,
    "block": 25,
    "thorough_budget_s": 600,
    "rule": ("one run = two seeded builder scripts A, B over the same phase names and default transitions "
             "(overlapping temporaries, statement ids, loop counters and condition flags; shared read-only "
             "<state>s, <t>, <dt>; disjoint persistent writes) fused by the real fuse_two_dags under the default "
             "or a drawn renaming predicate; structural invariants at fuse time, then K interleavings of the "
             "fused phase (random / alternating / A-first / B-first linear extensions) x 1..2 stores executed "
             "through the real interpreter callbacks and compared per origin with the solo runs. distinct = "
             "(both script shapes, predicate, interleaving) hash; non-trivial = both methods contribute >=2 "
             "statements to a fused phase and >=1 interleaving alternates between origins"),
    "real": ["dagrt.transform.fuse_two_dags/fuse_two_phases", "pymbolic.imperative.transform.disambiguate_and_fuse",
             "statement map_expressions(include_lhs=True)", "verify_code", "NumpyInterpreter exec_* / evaluate_condition"],
    "stub": ["scheduler (interleaving of the two origins)", "renaming predicate", "initial store",
             "user functions (pure library)"],
    "assumptions": ["the two methods write disjoint persistent variables and neither reads a persistent "
                    "variable the other writes; no step-ending statements in the executed variant"],
    "probes": ["temp_clash", "loop_counter_clash", "flag_clash", "id_clash", "predicate_custom",
               "disagree_initial", "disagree_transition", "interleaved", "handwritten_ids", "fusion_of_a_fusion",
               "phase_record_name_differs_from_key", "methods_with_implicit_solves", "method_used_before_fusion", "statement_classes_with_asserts_stripped",
               "earlier_fusion_of_same_objects"],
}}


def build_dag(sc, ap):
    phases = {}
    for ph in sc.phases:
        phases[ph.name] = ExecutionPhase(ph.name, ph.next_phase, list(ap.builders[ph.name].statements))
    return DAGCode(phases, sc.initial)


# ---- seam: the order in which fusion walks the clashing names.  dagrt (like pymbolic) iterates a plain set
# intersection there, so which fresh name (temp_2 or temp_3) a clashing name gets follows PYTHONHASHSEED.
# Fusion asks pymbolic.imperative.analysis.get_all_used_identifiers for the two name sets at call time; the
# simulator hands back sets whose intersection iterates in an order drawn from the tape.
_CLASH_CHOOSER = [None]


class _IdSet(set):
    def __and__(self, other):
        from simdag.seams.ordfs import OrdFS
        return OrdFS(set.__and__(self, other), _CLASH_CHOOSER[0], "clashing_names")

    def __or__(self, other):
        return _IdSet(set.__or__(self, other))


def _own_clash_order():
    import pymbolic.imperative.analysis as _an
    if getattr(_an.get_all_used_identifiers, "_simdag", False):
        return
    real = _an.get_all_used_identifiers

    def get_all_used_identifiers(stmts):
        return _IdSet(real(stmts))
    get_all_used_identifiers._simdag = True
    _an.get_all_used_identifiers = get_all_used_identifiers


def snapshot(dag):
    """Structural dump of a description (to show that fusion leaves its inputs alone)."""
    out = []
    for pn in sorted(dag.phases):
        ph = dag.phases[pn]
        for st in ph.statements:
            fields = sorted((f, repr(getattr(st, f, None))) for f in type(st).fields if f != "depends_on")
            out.append((pn, ph.next_phase, type(st).__name__, st.id, tuple(sorted(st.depends_on)), str(st),
                        tuple(fields)))
    return out


ID_POOL = ["s", "s_0", "s_1", "s_0_0", "main_0", "main_0_0", "main_1", "main_1_0", "init_0", "init_0_0", "0", "0_0"]


def relabel(tape, dag):
    """Hand-written statement ids (the builder's numbering is only one possible id scheme): ids drawn
    from a small pool in which one id is another id plus the suffix a unique-name generator appends."""
    phases = {}
    for pn in sorted(dag.phases):
        ph = dag.phases[pn]
        stmts = list(ph.statements)
        if tape.chance(0.6, "idfamily"):
            # one family: an id, and the ids a unique-name generator derives from it
            # (pytools' generator counts a trailing _<n> upwards: main_0 -> main_1 -> ...)
            base = [pn, pn, "s", "main", "0"][tape.draw(5, "idbase")]
            fam = ["%s_%d" % (base, k) for k in range(max(3, len(stmts)))]
            pool = [fam[i] for i in tape.perm(len(fam), "idpool")] + [x for x in ID_POOL if x not in fam]
        else:
            pool = [ID_POOL[i] for i in tape.perm(len(ID_POOL), "idpool")]
        ids = {}
        for k, st in enumerate(stmts):
            ids[st.id] = pool[k] if k < len(pool) else "h%d" % k
        new = [st.copy(id=ids[st.id], depends_on=frozenset(ids[d] for d in st.depends_on)) for st in stmts]
        # "statements is a list of statement instances in no particular order"
        new = [new[i] for i in tape.perm(len(new), "storage")]
        phases[pn] = ExecutionPhase(ph.name, ph.next_phase, new)
    return DAGCode(phases, dag.initial_phase)


def _check_unknowns(label, B, FB):
    """an implicit solve's unknown occurs in its equations after fusion iff it did before"""
    from dagrt.utils import get_variables
    for b_, fb in zip(B, FB):
        if type(b_).__name__ != "AssignImplicit":
            continue
        def occ(st):
            vs = set()
            for e in st.expressions:
                vs |= set(get_variables(e))
            return [sv in vs for sv in st.solve_variables]
        if occ(b_) != occ(fb):
            raise Violation("deps-not-preserved", "%s: implicit solve %s solved for %r in %s; after fusion it solves "
                            "for %r in %s" % (label, b_.id, list(b_.solve_variables), [str(e) for e in b_.expressions],
                                              list(fb.solve_variables), [str(e) for e in fb.expressions]),
                            site="unknowns")


def check_structure(label, A, B, F, pred):
    """Structural invariants of one fused phase (also used for fusions of fusions)."""
    ids = [s.id for s in F]
    if len(set(ids)) != len(ids):
        raise Violation("ids-not-unique", "%s: fused ids %r" % (label, ids), site="nested")
    if len(F) != len(A) + len(B):
        raise Violation("deps-not-preserved", "%s: %d + %d statements fused into %d" % (label, len(A), len(B), len(F)),
                        site="count")
    FA, FB = F[:len(A)], F[len(A):]
    for a, fa in zip(A, FA):
        if a.id != fa.id or set(a.depends_on) != set(fa.depends_on) or str(a) != str(fa):
            raise Violation("deps-not-preserved", "%s: first method's %s became %s: %s <- %s"
                            % (label, a.id, fa.id, fa, sorted(fa.depends_on)), site="A")
    newid = {b.id: fb.id for b, fb in zip(B, FB)}
    for b_, fb in zip(B, FB):
        dangling = sorted(d for d in b_.depends_on if d not in newid)
        if dangling:
            raise Violation("deps-not-preserved", "%s: %s depends on %r, which are no statements of its phase (left "
                            "behind by the fusion that made this method)" % (label, b_.id, dangling), site="dangling")
        want = set(newid[d] for d in b_.depends_on)
        if set(fb.depends_on) != want or type(b_) is not type(fb):
            raise Violation("deps-not-preserved", "%s: second method's %s (deps %r) became %s with deps %r, expected %r"
                            % (label, b_.id, sorted(b_.depends_on), fb.id, sorted(fb.depends_on), sorted(want)),
                            site="B")
    _check_unknowns(label, B, FB)
    nA, nB0, nFB = names_of(A), names_of(B), names_of(FB)
    for c in sorted(nA & nB0):
        renamed = c not in nFB
        want_renamed = (not is_state_variable(c)) if pred is None else bool(pred(c))
        if renamed != want_renamed:
            cls = ("predicate-ignored" if pred is not None else
                   "persistent-renamed" if is_state_variable(c) else "temp-clash")
            raise Violation(cls, "%s: name %s used by both methods %s" % (
                label, c, "was renamed" if renamed else "was not renamed"), site=_cls(c))
    for c in sorted(nB0 - nA):
        if c not in nFB:
            raise Violation("predicate-ignored", "%s: name %s of the second method does not clash but was renamed"
                            % (label, c), site=_cls(c))


def names_of(stmts):
    out = set()
    for s in stmts:
        out |= set(s.get_read_variables()) | set(s.get_written_variables())
    return out


def run_c16(ctx):
    tape = ctx.tape
    from simdag.seams.ordfs import TapeChooser
    _own_clash_order()
    _CLASH_CHOOSER[0] = TapeChooser(tape, ctx.log, counter=lambda site: ctx.count("fault:perm_clashing_names"))
    try:
        return _run_c16(ctx)
    finally:
        _CLASH_CHOOSER[0] = None


def _run_c16(ctx):
    tape = ctx.tape
    with tape.span("knobs"):
        n_ph = 1 + tape.draw(2, "nph")
        names = ["main", "init"][:n_ph]
        nxt = {n: names[tape.draw(n_ph, "next")] for n in names}
        variant = tape.weighted([8, 1, 1], "variant")    # 0 ok, 1 initial differs, 2 transition differs
        pred_kind = tape.weighted([3, 1, 1], "pred")     # 0 default, 1 custom subset, 2 rename nothing
        K = 3 + tape.draw(4, "K") if not ctx.thorough else 8 + tape.draw(16, "K")
        n_stores = 1 + tape.draw(2, "nstores")
    shared = {"<state>s": ("float", [1.5, 2, -0.5, 3][tape.draw(4, "sv")])}
    forbid = ("fail", "switch", "restart", "raise_", "dead_code")
    cfgA = dict(phase_names=names, next=nxt, no_advance=True, shared_ro=shared,
                state_num=["<state>y", "<state>ya"], state_int=["<state>n"], state_arr=["<state>a"])
    cfgB = dict(phase_names=names, next=nxt, no_advance=True, shared_ro=shared,
                state_num=["<state>z", "<state>zb"], state_int=["<state>m"], state_arr=["<state>b"])
    if tape.chance(0.4, "attr_names"):
        # temporaries spelled like the attributes that expressions look up (x.real, x.imag)
        cfgA["extra_temps"] = ["real", "imag", "real"]
        cfgB["extra_temps"] = ["real", "imag", "real"]
        ctx.count("probe:temporaries_named_like_attributes")
    forbid_b = forbid
    if tape.chance(0.3, "b_uses_counter_names"):
        # the second method has no loops and uses i / j as ordinary temporaries, while the first method
        # uses them as loop counters: they must be kept apart like any other per-step name
        cfgB["extra_temps"] = ["i", "j", "i", "j"] + list(cfgB.get("extra_temps", []))
        forbid_b = forbid + ("loops", "arrays", "var_bounds")
        ctx.count("probe:counter_name_as_temporary")
    with tape.span("implicit"):
        implicit = tape.chance(0.3, "implicit")     # implicit solves (executed by the simulated solver of C02)
    if implicit:
        ctx.count("probe:methods_with_implicit_solves")
    scA = ScriptGen(tape, max_ops=6, max_depth=2, persistent_p=False, forbid=forbid, cfg=cfgA, implicit=implicit).gen()
    scB = ScriptGen(tape, max_ops=6, max_depth=2, persistent_p=False, forbid=forbid_b, cfg=cfgB,
                    implicit=implicit).gen()
    with tape.span("process_config"):
        # process configuration: python -O (the statement classes of both methods come from dagrt.language
        # compiled without assert statements)
        lang = None
        if tape.chance(0.2, "asserts_stripped"):
            from simdag.gen.script import language_without_asserts
            lang = language_without_asserts()
            ctx.count("probe:statement_classes_with_asserts_stripped")
            ctx.count("fault:python_O")
    try:
        apA, apB = apply_script(scA, lang), apply_script(scB, lang)
    except Exception:
        raise Discard("builder-exception")
    ctx.decoded["script_A"] = scA.text(apA.nm)
    ctx.decoded["script_B"] = scB.text(apB.nm)
    dagA, dagB = build_dag(scA, apA), build_dag(scB, apB)
    own_names_A, own_names_B = script_names(scA, apA), script_names(scB, apB)

    if variant == 1 and n_ph > 1:
        dagB = DAGCode(dagB.phases, names[1])
        ctx.count("probe:disagree_initial")
    elif variant == 2 and n_ph > 1:
        ph = dagB.phases[names[0]]
        other = [n for n in names if n != ph.next_phase][0]
        ph2 = ExecutionPhase(ph.name, other, ph.statements)
        dagB = DAGCode(dict(dagB.phases, **{ph.name: ph2}), dagB.initial_phase)
        ctx.count("probe:disagree_transition")
    else:
        variant = 0

    # a phase that exists in only one of the two methods must survive fusion untouched
    only = {}
    with tape.span("onlyphases"):
        for tag, dag in (("onlyA", dagA), ("onlyB", dagB)):
            if tape.chance(0.2, "only"):
                src = dag.phases[names[0]]
                # (the key in the phase table is what counts; the record's own name may differ from it)
                rec_name = [tag, tag, "x_" + tag, names[0]][tape.draw(4, "only_recname")]
                if rec_name != tag:
                    ctx.count("probe:phase_record_name_differs_from_key")
                only[tag] = ExecutionPhase(rec_name, names[0], list(src.statements))
                ctx.count("probe:phase_in_one_method_only")
    if "onlyA" in only:
        dagA = DAGCode(dict(dagA.phases, onlyA=only["onlyA"]), dagA.initial_phase)
    if "onlyB" in only:
        dagB = DAGCode(dict(dagB.phases, onlyB=only["onlyB"]), dagB.initial_phase)

    with tape.span("relabel"):
        if tape.chance(0.25, "relabelA"):
            dagA = relabel(tape, dagA)
            ctx.count("probe:handwritten_ids")
        if tape.chance(0.35, "relabelB"):
            dagB = relabel(tape, dagB)
            ctx.count("probe:handwritten_ids")
    for tag, dag in (("onlyA", dagA), ("onlyB", dagB)):
        if tag in only:
            only[tag] = dag.phases[tag]
    all_names = sorted(names_of([s for p in dagA.phases.values() for s in p.statements])
                       | names_of([s for p in dagB.phases.values() for s in p.statements]))
    pred = None
    pred_set = None
    if pred_kind == 1:
        pred_set = set(n for n in all_names if tape.chance(0.5, "predname"))
        pred = lambda name: name in pred_set     # noqa: E731
        ctx.count("probe:predicate_custom")
    elif pred_kind == 2:
        pred_set = set()
        pred = lambda name: False                # noqa: E731
    ctx.decoded["predicate"] = "default" if pred is None else sorted(pred_set)

    with tape.span("used_before"):
        # history: a method was run, printed or generated from before it is fused (its phases then carry their
        # memoised root sets and id tables)
        for tag, dag in (("A", dagA), ("B", dagB)):
            if tape.chance(0.3, "used_before_fusion"):
                for ph in dag.phases.values():
                    ph.depends_on
                    ph.id_to_stmt
                ctx.count("probe:method_used_before_fusion")
    snapA, snapB = snapshot(dagA), snapshot(dagB)
    with tape.span("earlier_fusion"):
        # history: the same two descriptions may have been fused before, under another predicate
        if variant == 0 and tape.chance(0.25, "earlier"):
            ek = tape.draw(3, "earlier_pred")
            try:
                if ek == 0:
                    fuse_two_dags(dagA, dagB)
                elif ek == 1:
                    fuse_two_dags(dagA, dagB, should_disambiguate_name=lambda name: False)
                else:
                    fuse_two_dags(dagA, dagB, should_disambiguate_name=lambda name: not name.startswith("<state>"))
            except Exception as e:
                tb = traceback.extract_tb(e.__traceback__)
                where = [f.name for f in tb if "/dagrt/" in f.filename]
                raise Violation("fuse-exception:" + type(e).__name__, "fuse_two_dags raised %r" % (e,),
                                site=where[-1] if where else "")
            ctx.count("probe:earlier_fusion_of_same_objects")
    try:
        if pred is None:
            fused = fuse_two_dags(dagA, dagB)
        else:
            fused = fuse_two_dags(dagA, dagB, should_disambiguate_name=pred)
    except ValueError as e:
        if variant == 0:
            raise Violation("agreement-check", "fuse_two_dags rejected two methods that agree on the initial "
                            "phase and on default transitions: %r" % (e,))
        return
    except Exception as e:
        tb = traceback.extract_tb(e.__traceback__)
        where = [f.name for f in tb if "/dagrt/" in f.filename]
        raise Violation("fuse-exception:" + type(e).__name__, "fuse_two_dags raised %r" % (e,),
                        site=where[-1] if where else "")
    if variant != 0:
        raise Violation("agreement-check", "fuse_two_dags accepted methods that disagree on the %s"
                        % ("initial phase" if variant == 1 else "default transition out of a phase"),
                        site="initial" if variant == 1 else "transition")
    if fused.initial_phase != dagA.initial_phase:
        raise Violation("agreement-check", "fused initial phase %r" % fused.initial_phase, site="initial")
    for tag, snap, dag in (("first", snapA, dagA), ("second", snapB, dagB)):
        now = snapshot(dag)
        if now != snap:
            diff = [(a[3], a[5], b[5]) for a, b in zip(snap, now) if a != b][:3]
            raise Violation("input-modified", "fuse_two_dags changed the %s method it was given (running that "
                            "method alone is no longer what its author wrote): %r" % (tag, diff), site=tag)

    if pred is None:
        # (a caller's predicate may legitimately ask for shared flags; only the default is checked)
        try:
            verify_code(fused)
        except Exception as e:
            raise Violation("fused-not-well-formed", "verify_code rejects the fused method: %s" % (e,))

    for tag, ph in only.items():
        got = fused.phases.get(tag)
        if got is None or got.next_phase != ph.next_phase or \
                sorted((s.id, str(s), tuple(sorted(s.depends_on))) for s in got.statements) != \
                sorted((s.id, str(s), tuple(sorted(s.depends_on))) for s in ph.statements):
            raise Violation("deps-not-preserved", "phase %s exists in one method only but is %s after fusion"
                            % (tag, "missing" if got is None else "changed: %r" % [str(s) for s in got.statements]),
                            site="only-phase")
    if set(fused.phases) != set(names) | set(only):
        raise Violation("deps-not-preserved", "fused phases %r" % sorted(fused.phases), site="phases")

    # ---- fusion of a fusion (what multi-rate generators do): a third method C with its own state
    with tape.span("nested"):
        if variant == 0 and tape.chance(0.3, "nested"):
            cfgC = dict(phase_names=names, next=nxt, no_advance=True, shared_ro=shared,
                        state_num=["<state>q", "<state>qc"], state_int=["<state>l"], state_arr=["<state>c"])
            scC = ScriptGen(tape, max_ops=4, max_depth=1, persistent_p=False, forbid=forbid, cfg=cfgC).gen()
            try:
                apC = apply_script(scC, lang)
            except Exception:
                raise Discard("builder-exception")
            dagC = build_dag(scC, apC)
            if tape.chance(0.4, "relabelC"):
                dagC = relabel(tape, dagC)
            ctx.decoded["script_C"] = scC.text(apC.nm)
            left = tape.chance(0.5, "nested_left")
            X, Y = (dagC, fused) if left else (fused, dagC)
            snapX, snapY = snapshot(X), snapshot(Y)
            try:
                nested = fuse_two_dags(X, Y) if pred is None else fuse_two_dags(X, Y, should_disambiguate_name=pred)
            except Exception as e:
                tb = traceback.extract_tb(e.__traceback__)
                where = [f.name for f in tb if "/dagrt/" in f.filename]
                raise Violation("fuse-exception:" + type(e).__name__, "fusing a method with a fused pair raised %r"
                                % (e,), site=where[-1] if where else "")
            ctx.count("probe:fusion_of_a_fusion")
            if snapshot(X) != snapX or snapshot(Y) != snapY:
                raise Violation("input-modified", "fuse_two_dags changed a method it was given (fusion of a fusion, "
                                "%s)" % ("C with AB" if left else "AB with C"), site="nested")
            for name in names:
                check_structure("phase %s, %s" % (name, "fuse(C, fuse(A, B))" if left else "fuse(fuse(A, B), C)"),
                                list(X.phases[name].statements), list(Y.phases[name].statements),
                                list(nested.phases[name].statements), pred)
    nontrivial = False
    for name in names:
        A = list(dagA.phases[name].statements)
        B = list(dagB.phases[name].statements)
        F = list(fused.phases[name].statements)
        ctx.decoded["phase_of_run"] = name
        ctx.decoded["fused_" + name] = ["%s: %s <- %s" % (s.id, s, sorted(s.depends_on)) for s in F]
        if fused.phases[name].next_phase != nxt[name]:
            raise Violation("agreement-check", "phase %s: fused default transition %r" % (
                name, fused.phases[name].next_phase), site="transition")
        ids = [s.id for s in F]
        if len(set(ids)) != len(ids):
            raise Violation("ids-not-unique", "phase %s: fused ids %r" % (name, ids))
        # what steppers and generators ask the fused phase object for must describe the fused statements
        fph = fused.phases[name]
        want_roots = set(ids) - set(d for s in F for d in s.depends_on)
        if set(fph.depends_on) != want_roots or set(fph.id_to_stmt) != set(ids):
            raise Violation("deps-not-preserved", "phase %s: the fused phase object reports roots %r and ids %r, its "
                            "statements have roots %r and ids %r" % (name, sorted(fph.depends_on),
                                                                    sorted(fph.id_to_stmt), sorted(want_roots),
                                                                    sorted(ids)), site="phase-object")
        if len(F) != len(A) + len(B):
            raise Violation("deps-not-preserved", "phase %s: %d + %d statements fused into %d"
                            % (name, len(A), len(B), len(F)), site="count")
        FA, FB = F[:len(A)], F[len(A):]
        if set(s.id for s in A) & set(s.id for s in B):
            ctx.count("probe:id_clash")
        for a, fa in zip(A, FA):
            if a.id != fa.id or set(a.depends_on) != set(fa.depends_on) or str(a) != str(fa):
                raise Violation("deps-not-preserved", "phase %s: first method's %s became %s: %s <- %s"
                                % (name, a.id, fa.id, fa, sorted(fa.depends_on)), site="A")
        newid = {b.id: fb.id for b, fb in zip(B, FB)}
        for b_, fb in zip(B, FB):
            want = set(newid[d] for d in b_.depends_on)
            if set(fb.depends_on) != want or type(b_) is not type(fb):
                raise Violation("deps-not-preserved", "phase %s: second method's %s (deps %r) became %s with "
                                "deps %r, expected %r" % (name, b_.id, sorted(b_.depends_on), fb.id,
                                                          sorted(fb.depends_on), sorted(want)), site="B")
        _check_unknowns("phase %s" % name, B, FB)
        nA, nB0, nFB = names_of(A), names_of(B), names_of(FB)
        # names taken from the scripts themselves (independent of dagrt's read/write sets), plus
        # the guard flags that only exist in the built statements
        nA = nA | own_names_A.get(name, set())
        nB0 = nB0 | own_names_B.get(name, set())
        clash = nA & nB0
        for c in sorted(clash):
            if c in ("i", "j", "k"):
                ctx.count("probe:loop_counter_clash")
            elif c.startswith("<cond>"):
                ctx.count("probe:flag_clash")
            elif not is_state_variable(c):
                ctx.count("probe:temp_clash")
        for c in sorted(clash):
            renamed = c not in nFB
            if pred is None:
                if is_state_variable(c) and renamed:
                    raise Violation("persistent-renamed", "phase %s: persistent name %s of the second method was "
                                    "renamed although no predicate was given (second method now uses %r)"
                                    % (name, c, sorted(n for n in nFB if n.startswith(c))), site=_cls(c))
                if not is_state_variable(c) and not renamed:
                    raise Violation("temp-clash", "phase %s: per-step name %s is used by both methods after "
                                    "fusion" % (name, c), site=_cls(c))
            else:
                if renamed != bool(pred(c)):
                    raise Violation("predicate-ignored", "phase %s: name %s %s although the predicate says %s"
                                    % (name, c, "was renamed" if renamed else "was not renamed", bool(pred(c))),
                                    site=_cls(c))
        for c in sorted(names_of(B) - clash):
            if c not in nFB:
                raise Violation("predicate-ignored", "phase %s: name %s of the second method does not clash "
                                "but was renamed" % (name, c), site=_cls(c))
        if nFB & nA - set(n for n in nA if is_state_variable(n)) and pred is None:
            bad = sorted(n for n in (nFB & nA) if not is_state_variable(n))
            if bad:
                raise Violation("temp-clash", "phase %s: per-step names %r shared after fusion" % (name, bad),
                                site="temp")
        if pred is not None:
            continue        # custom predicates may legitimately share temporaries: no execution check
        # ---- execution: every interleaving gives each method its solo persistent results
        merged_funcs = sorted(set(scA.funcs) | set(scB.funcs))

        class SC:           # minimal object for Exec
            funcs = merged_funcs

            @staticmethod
            def func_impl(fn):
                return scA.func_impl(fn) if fn in scA.funcs else scB.func_impl(fn)
        exA, exB, exF = Exec(A, SC), Exec(B, SC), Exec(F, SC)
        base = {"<t>": scA.t0, "<dt>": scA.dt0}
        for k, v in list(scA.state0.items()) + list(scB.state0.items()):
            base["<state>" + k] = v
        stores = [base]
        if n_stores > 1:
            s2 = copy_store(base)
            for k in sorted(s2):
                if tape.chance(0.5, "perturb"):
                    s2[k] = s2[k] + [1, -1, 0.5][tape.draw(3, "delta")]
            stores.append(s2)
        posF = {s.id: i for i, s in enumerate(F)}
        deps_idx = [sorted(posF[d] for d in s.depends_on) for s in F]
        wA = set(v for s in A for v in s.get_written_variables() if is_persistent(v))
        wB = set(v for s in B for v in s.get_written_variables() if is_persistent(v))
        # (the statement lists may be stored in any order: solo runs follow the dependency edges)
        posA = {s.id: i for i, s in enumerate(A)}
        posB = {s.id: i for i, s in enumerate(B)}
        topoA = random_extension(tape, [sorted(posA[d] for d in s.depends_on) for s in A], "earliest")
        topoB = random_extension(tape, [sorted(posB[d] for d in s.depends_on) for s in B], "earliest")
        for si, st0 in enumerate(stores):
            hA = exA.run(topoA, st0, record=True)
            hB = exB.run(topoB, st0, record=True)
            for h, ex in ((hA, exA), (hB, exB)):
                if h["term"] is not None:
                    raise Discard("ill-defined:solo-run-ends-early")
                for i in h["executed"]:
                    if [m for m in h["acc"][i][4] if m not in ex.interp.functions]:
                        raise Discard("ill-defined:read-unassigned")
            for k in range(K):
                with tape.span("interleaving"):
                    strat = ["random", "alternate", "a_first", "b_first", "latest"][tape.draw(5, "strategy")]
                    if strat == "alternate":
                        order = alternate_extension(tape, deps_idx, len(A))
                    elif strat == "a_first":
                        order = topoA + [len(A) + i for i in topoB]
                    elif strat == "b_first":
                        order = [len(A) + i for i in topoB] + topoA
                    else:
                        order = random_extension(tape, deps_idx, strat if strat == "latest" else "random")
                switches = sum(1 for x, y in zip(order, order[1:]) if (x < len(A)) != (y < len(A)))
                if switches >= 2:
                    ctx.count("probe:interleaved")
                    if len(A) >= 2 and len(B) >= 2:
                        nontrivial = True
                ctx.count("fault:interleaving_" + strat)
                h = exF.run(order, st0)
                where = "phase %s store %d %s interleaving %r" % (name, si, strat, [F[i].id for i in order])
                if h["term"] is not None:
                    raise Violation("interference", "%s: fused step ends with %r, both solo runs complete"
                                    % (where, h["term"]), site="terminator")
                for origin, hs, w in (("A", hA, wA), ("B", hB, wB)):
                    for v in sorted(w):
                        got = h["store"].get(v, "<unset>")
                        want = hs["store"].get(v, "<unset>")
                        if isinstance(got, str) or isinstance(want, str) or not same_value(got, want):
                            ctx.decoded["interleaving"] = [F[i].id for i in order]
                            raise Violation("interference", "%s: %s (written by method %s) = %s, running that "
                                            "method alone gives %s" % (where, v, origin, _sv(got), _sv(want)),
                                            site=origin + ":" + _cls(v))
                    evs = [e for e in h["events"] if (e[0] < len(A)) == (origin == "A")]
                    solo = hs["events"]
                    if len(evs) != len(solo) or any(
                            a[2:4] != b[2:4] or not same_value(a[1], b[1]) or not same_value(a[4], b[4])
                            for a, b in zip(evs, solo)):
                        raise Violation("interference", "%s: events of method %s %r, alone %r"
                                        % (where, origin, [(e[2], e[3], _sv(e[4])) for e in evs],
                                           [(e[2], e[3], _sv(e[4])) for e in solo]), site=origin + ":events")
                ctx.dkey(tuple(order))
    ctx.nontrivial = nontrivial or (pred is not None and len(all_names) > 4)
    ctx.dkey(scA.shape_sig, scB.shape_sig, ctx.decoded["predicate"])
    ctx.log.add("c16", ctx.decoded["predicate"])
    ctx.sample = {"script_A": ctx.decoded["script_A"][:8], "script_B": ctx.decoded["script_B"][:8],
                  "predicate": ctx.decoded["predicate"],
                  "fused": ctx.decoded.get("fused_" + names[0], [])[:10]}


def _cls(name):
    if name in ("<t>", "<dt>"):
        return name
    if name.startswith("<"):
        return name[:name.index(">") + 1]
    return "counter" if name in ("i", "j", "k") else "temp"


def alternate_extension(tape, deps_idx, n_a):
    """linear extension that switches origin whenever it can."""
    n = len(deps_idx)
    indeg = [len(d) for d in deps_idx]
    children = [[] for _ in range(n)]
    for i, d in enumerate(deps_idx):
        for j in d:
            children[j].append(i)
    ready = sorted(i for i in range(n) if indeg[i] == 0)
    order = []
    last_a = bool(tape.draw(2, "startwith"))
    while ready:
        pref = [i for i in ready if (i < n_a) != last_a]
        pool = pref or ready
        i = pool[tape.draw(len(pool), "alt")]
        ready.remove(i)
        order.append(i)
        last_a = i < n_a
        for c in children[i]:
            indeg[c] -= 1
            if indeg[c] == 0:
                ready.append(c)
        ready.sort()
    return order
