"""C13 — distinct IR names map to distinct, legal, stable target identifiers.

Real: KeyToUniqueNameMap, make_identifier_from_name, PythonNameManager,
FortranNameManager, is_state_variable, pytools' UniqueNameGenerator.
Simulated: the history of lookups a code generator could issue, in any order.
"""
import keyword
import os
import re
import shutil
import subprocess
import tempfile

from dagrt.codegen.fortran import FortranNameManager
from dagrt.codegen.python import PythonNameManager

from simdag.core.outcome import Discard, Violation

META = {"C13": {
    "level": "exploration",
    "quick_runs": 30000,
    "block": 100,
    "thorough_budget_s": 600,
    "rule": ("one run = one seeded adversarial name pool (names differing only in punctuation or case, names "
             "equal to generated identifiers, tagged names, empty-after-sanitising names, 60..200 character "
             "names) and a history of 5..60 name-manager operations for the Python or the Fortran manager "
             "(lookups through every entry point, repeated lookups, clear_locals, unique-name requests, "
             "refcount names); invariants N1..N5 after every operation; thorough tier (and every 8th quick "
             "run) also compiles a Python function / Fortran module declaring every live identifier. "
             "distinct = (language, name pool, operation history) hash; non-trivial = >=2 names whose "
             "sanitised forms coincide (exactly, or case-folded) or one over-long name were looked up"),
    "real": ["dagrt.codegen.utils.KeyToUniqueNameMap/make_identifier_from_name", "PythonNameManager",
             "FortranNameManager", "dagrt.utils.is_state_variable", "pytools.UniqueNameGenerator",
             "CPython compile() / gfortran -fsyntax-only (compile probes)"],
    "stub": ["code generator issuing the lookups (seeded operation history)"],
    "assumptions": ["user names do not start with 'dagrt_' (documented as reserved)",
                    "name_global is only called with persistent names and name_local with per-step names, as "
                    "the generators do"],
    "probes": ["sanitised_collision", "casefold_collision", "long_name", "empty_after_sanitising",
               "lookup_repeated", "clear_locals", "looks_generated", "compile_probe", "program_probe",
               "persistent_loop_variable", "program_probe_names_compete", "fortran_program_probe",
               "generator_with_extra_arguments"],
}}

PERSISTENT_TAGS = ("<state>", "<p>", "<ret_time_id>", "<ret_time>", "<ret_state>")


def is_state_variable(name):
    """The model's own classification (independent of dagrt.utils.is_state_variable)."""
    return name in ("<t>", "<dt>") or name.startswith(PERSISTENT_TAGS)


ALPHA = list("abxyYXZz019_") + list("<>^*.-+%$ '") + ["é", "ß", "λ", "\n", "\t"]
LOOKS_GENERATED = ["y_", "y__0", "localx", "local_x", "lploc_x", "lploc_x_0", "drtf_x", "global_state_y",
                   "state_y", "state_y_0", "p_y", "func_f", "x_0", "x_1", "self", "t", "dt", "numpy",
                   "refcount", "run", "shutdown", "initialize", "end", "if", "do", "real", "class", "for",
                   "hoisted", "res1", "lploc_", "local", "_functions", "next_phase",
                   # other spellings of the generator's own (case-insensitive) Fortran names
                   "Dagrt_ierr", "DAGRT_STATE", "Dagrt_t", "Dagrt_Nan", "DAGRT_dt",
                   # the expression printers' private "print verbatim" marker in the middle of a name
                   "q<target>lploc_y", "x<target>y", "a<target>localx",
                   # identifier characters plus one trailing line break
                   "y\n", "x_0\n", "class\n", "lploc_x\n"]
TAGS = ["<state>", "<p>", "<ret_state>", "<ret_time>", "<ret_time_id>"]
FUNC_NAMES = ["<func>f", "<func>F", "<func>f_", "<func>f^", "<func>f*", "f", "<builtin>len", "<func>y",
              "<func>" + "g" * 70, "<func>G" + "g" * 69, "run", "<func>run", "^", "*", "<>", "class", "if", "1f",
              "None", "<func>class", "_private",
              # keywords behind characters that sanitising strips
              "_class", "^class", " lambda", "<>in", "*not", "_None", "_if", "<func>_class", "<func>^in",
              "class\n", "f\n", "<func>f\n"]

PY_RESERVED = {"self.t", "self.dt", "self._numpy", "self._functions", "self.next_phase",
               "self.phase_transition_table", "self.StateComputed", "self.StepCompleted", "self.StepFailed",
               "self.run", "self.run_single_step", "self.set_up", "self", "evt", "function_map",
               "self.FailStepException", "self.TransitionEvent", "self.StepError"}
F_RESERVED = {"dagrt_state", "dagrt_ierr", "dagrt_t", "dagrt_dt", "dagrt_next_phase", "dagrt_stderr",
              "initialize", "run", "shutdown", "print_profile", "dagrt_state_type", "dagrt_stack_t"}
PY_IDENT = re.compile(r"^[A-Za-z_][A-Za-z0-9_]*$")
F_IDENT = re.compile(r"^[A-Za-z][A-Za-z0-9_]{0,62}$")


def gen_pool(tape):
    pool = []
    with tape.span("pool"):
        n = 3 + tape.draw(10, "npool")
        for _ in range(n):
            with tape.span("name"):
                kind = tape.weighted([4, 2, 2, 2, 1, 1.5, 1], "namekind")
                if kind == 0:
                    ln = 1 + tape.draw(4, "len")
                    base = "".join(ALPHA[tape.draw(len(ALPHA), "ch")] for _ in range(ln))
                elif kind == 1 and pool:
                    # differs from an earlier name only in punctuation or case
                    src = pool[tape.draw(len(pool), "src")]
                    src = src[src.index(">") + 1:] if src.startswith("<") and ">" in src else src
                    if src and tape.chance(0.5, "case"):
                        base = src.swapcase() if src.swapcase() != src else src + "A"
                    else:
                        base = src + ["^", "*", "_", ".", " "][tape.draw(5, "punct")]
                elif kind == 2:
                    base = LOOKS_GENERATED[tape.draw(len(LOOKS_GENERATED), "lg")]
                elif kind == 3:
                    base = ["^", "_", "<>", "__", "*", "é", ""][tape.draw(7, "empty")]
                elif kind == 4:
                    stem = ["a", "Ab", "x_"][tape.draw(3, "stem")]
                    base = stem * (60 // len(stem) + tape.draw(60, "extra"))
                    if tape.chance(0.5, "longtwin") and pool:
                        pass
                elif kind == 5 and pool:
                    # a long twin: same first 63+ characters, different tail
                    base = ("q" * (63 + tape.draw(10, "pre"))) + ["A", "b", "_1"][tape.draw(3, "tail")]
                else:
                    base = "y"
                tag = TAGS[tape.draw(len(TAGS), "tag")] if tape.chance(0.4, "tagged") else ""
                if not tag and tape.chance(0.05, "tdt"):
                    pool.append(["<t>", "<dt>"][tape.draw(2, "whicht")]) if True else None
                name = tag + base
                if name.startswith("dagrt_") or not name or name.startswith("<") and not tag:
                    name = tag + "v" + base.lstrip("<")
                if name.startswith("dagrt_"):
                    name = "v" + name
                if name not in pool:
                    pool.append(name)
        if tape.chance(0.15, "function_like_variable"):
            # a per-step variable spelled exactly like a function that every registry knows
            pool.append(["<builtin>len", "<builtin>norm_2", "<builtin>array"][tape.draw(3, "fnlike")])
    return pool


def ident_part(ident, lang):
    if lang == "py":
        for pre in ("self.global_", "self._functions."):
            if ident.startswith(pre):
                return pre, ident[len(pre):]
        if ident in ("self.t", "self.dt"):
            return "self.", ident[5:]
        return "", ident
    if ident.startswith("dagrt_state%"):
        return "dagrt_state%", ident[len("dagrt_state%"):]
    return "", ident


class Model:
    def __init__(self, lang):
        self.lang = lang
        self.maps = {"local": {}, "global": {}, "func": {}}
        self.extra = []           # unique names handed out without key (Fortran)
        self.fold = (lambda s: s.lower()) if lang == "f" else (lambda s: s)

    def live(self):
        out = []
        for ns, m in self.maps.items():
            for k, v in m.items():
                out.append((ns, k, v))
        for v in self.extra:
            out.append(("unique", None, v))
        return out


def check_ident(model, ns, key, ident, label):
    lang = model.lang
    pre, rest = ident_part(ident, lang)
    L = "python" if lang == "py" else "fortran"
    # N1 legality
    if lang == "py":
        ok = bool(PY_IDENT.match(rest)) and not keyword.iskeyword(rest) and "." not in rest
        if ns == "global" and not (pre in ("self.global_", "self.")):
            ok = False
        if ns == "func" and pre != "self._functions.":
            ok = False
        if ns == "local" and pre != "":
            ok = False
    else:
        ok = bool(F_IDENT.match(rest))
    if not ok:
        raise Violation("illegal:" + L, "%s: key %r mapped to %r, which is not a legal %s identifier%s"
                        % (label, key, ident, L, " (longer than 63 characters)" if lang == "f" and len(rest) > 63
                           and re.match(r"^[A-Za-z][A-Za-z0-9_]*$", rest) else ""),
                        site="too-long" if lang == "f" and len(rest) > 63 else "syntax")
    # N3 reserved
    if lang == "py":
        if ident in PY_RESERVED and not (key in ("<t>", "<dt>") and ident in ("self.t", "self.dt")):
            raise Violation("reserved:" + L, "%s: key %r mapped to the generator's own %r" % (label, key, ident),
                            site=ns)
    else:
        # (FortranNameManager.name_function is not used by the generator: no reserved check for it)
        if ns != "func" and rest.lower() in F_RESERVED and not (key in ("<t>", "<dt>")):
            raise Violation("reserved:" + L, "%s: key %r mapped to the generator's own %r" % (label, key, ident),
                            site=ns)
    # N2 distinctness among live identifiers
    f = model.fold
    for ns2, k2, v2 in model.live():
        if (ns2, k2) == (ns, key) and key is not None:
            continue
        if f(v2) == f(ident):
            # a global (state component) and a local live in different Fortran scopes only if qualified
            raise Violation("collision:" + L, "%s: key %r (%s) and key %r (%s) both map to %r%s"
                            % (label, key, ns, k2, ns2, ident if v2 == ident else "%s / %s" % (ident, v2),
                               "" if v2 == ident else " (equal under Fortran's case-insensitive comparison)"),
                            site="exact" if v2 == ident else "casefold")


def compile_probe(ctx, model):
    ctx.count("probe:compile_probe")
    if model.lang == "py":
        lines = ["class M:", "    def f(self):"]
        for ns, k, v in model.live():
            lines.append("        %s = 1" % v)
        lines.append("        return 0")
        try:
            compile("\n".join(lines), "<probe>", "exec")
        except SyntaxError as e:
            raise Violation("compile:python", "python rejects the mapped identifiers: %s (line %r)"
                            % (e.msg, lines[(e.lineno or 1) - 1].strip()), site="syntax")
        return
    if shutil.which("gfortran") is None:
        return
    glob = [v for ns, k, v in model.live() if ns == "global"]
    loc = [v for ns, k, v in model.live() if ns in ("local", "unique", "func")]
    src = ["module probe", "  type dagrt_state_type"]
    src += ["    real*8 :: %s" % ident_part(g, "f")[1] for g in glob] or ["    real*8 :: dagrt_dummy"]
    src += ["  end type", "contains", "  subroutine s(dagrt_state)", "    type(dagrt_state_type) :: dagrt_state"]
    src += ["    real*8 :: %s" % v for v in loc]
    src += ["    %s = 1" % v for v in loc]
    src += ["    dagrt_state%%%s = 1" % ident_part(g, "f")[1] for g in glob]
    src += ["  end subroutine", "end module"]
    d = tempfile.mkdtemp(prefix="dagrt-verif-name-", dir=os.environ.get("VERIF_SCRATCH", "/var/tmp"))
    try:
        with open(os.path.join(d, "probe.f90"), "w") as f:
            f.write("\n".join(src) + "\n")
        p = subprocess.run(["gfortran", "-fsyntax-only", "-ffree-line-length-none", "probe.f90"], cwd=d,
                           capture_output=True, text=True, timeout=60)
        if p.returncode != 0:
            err = [ln for ln in p.stderr.splitlines() if ln.startswith("Error")][:1]
            raise Violation("compile:fortran", "gfortran rejects a module declaring the mapped identifiers: %s"
                            % (err[0] if err else p.stderr[-300:]),
                            site="too-long" if "too long" in p.stderr else
                            ("duplicate" if "already" in p.stderr else "other"))
    finally:
        shutil.rmtree(d, ignore_errors=True)


def _pick_pair(tape, cands):
    """two distinct names, preferably with the same sanitised form (they compete for one identifier)."""
    by = {}
    for n in cands:
        by.setdefault(sanitised(n).lower(), []).append(n)
    twins = [v for v in by.values() if len(v) >= 2]
    if twins and tape.chance(0.8, "twinpair"):
        g = twins[tape.draw(len(twins), "twingroup")]
        i = tape.draw(len(g), "tw1")
        j = tape.draw(len(g) - 1, "tw2")
        j = j if j < i else j + 1
        return g[i], g[j]
    if len(cands) < 2:
        return None
    i = tape.draw(len(cands), "p1")
    j = tape.draw(len(cands) - 1, "p2")
    j = j if j < i else j + 1
    return cands[i], cands[j]


def program_probe(ctx, tape, pool):
    """End to end through the real Python generator.  Two phases that alternate; two names n1, n2
    (preferably with the same sanitised form) are assigned in opposite order in the two phases and
    read by an equal expression in both; a third name is the loop variable of the first phase.
    Wherever the generator mentions a name it must use the one identifier that belongs to it, so the
    class yields the closed-form values 90, 1290, 1380."""
    from pymbolic import var
    from dagrt.codegen import PythonCodeGenerator
    from dagrt.language import Assign, DAGCode, ExecutionPhase, YieldState
    # (names with control characters stay at the name-manager level: the generators also copy IR names
    # into comments of the generated text, which is outside this property)
    cands = [n for n in pool if n not in ("<t>", "<dt>", "<state>acc", "probe_q")
             and not any(ord(ch) < 32 for ch in n)]
    pair = _pick_pair(tape, cands)
    if pair is None:
        return
    n1, n2 = pair
    rest = [n for n in cands if n not in pair]
    lv = rest[tape.draw(len(rest), "loopvar")] if rest and tape.chance(0.8, "useloopvar") else None

    def asg(sid, name, e, deps, loops=()):
        return Assign(id=sid, assignee=name, assignee_subscript=(), expression=e, depends_on=deps, loops=list(loops))
    both = var(n1) + 2 * var(n2)
    acc = var("<state>acc")
    main = [asg("a1", n1, 1, []), asg("a2", n2, 10, ["a1"]), asg("q", "probe_q", both, ["a2"])]
    if lv is not None:
        main.append(asg("s", "<state>acc", acc + var("probe_q") + var(lv), ["q"], [(lv, 0, 4)]))
    else:
        main.append(asg("s", "<state>acc", acc + 4 * var("probe_q") + 6, ["q"]))
    main.append(YieldState(id="y", time=var("<t>"), time_id="final", expression=acc, component_id="acc",
                           depends_on=["s"]))
    second = [asg("b2", n2, 100, []), asg("b1", n1, 1000, ["b2"]), asg("q", "probe_q", both, ["b1"]),
              asg("s", "<state>acc", acc + var("probe_q"), ["q"]),
              YieldState(id="y", time=var("<t>"), time_id="final", expression=acc, component_id="acc",
                         depends_on=["s"])]
    code = DAGCode.from_phases_list([ExecutionPhase(name="main", next_phase="second", statements=main),
                                     ExecutionPhase(name="second", next_phase="main", statements=second)], "main")
    ctx.count("probe:program_probe")
    if lv is not None and is_state_variable(lv):
        ctx.count("probe:persistent_loop_variable")
    if sanitised(n1).lower() == sanitised(n2).lower():
        ctx.count("probe:program_probe_names_compete")
    label = "python program probe (names %r and %r, loop variable %r)" % (n1, n2, lv)
    ctx.decoded["program_probe"] = {"names": [n1, n2], "loop_variable": lv}
    try:
        cls = PythonCodeGenerator(class_name="Method").get_class(code)
        m = cls({})
        m.set_up(t_start=0, dt_start=1, context={"acc": 0})
        got = [ev.state_component for ev in m.run(max_steps=3) if isinstance(ev, m.StateComputed)]
    except Exception as e:
        raise Violation("unstable", "%s: the generated class fails with %s: %s" % (label, type(e).__name__, e),
                        site="program:" + type(e).__name__)
    if got != [90, 1290, 1380]:
        raise Violation("unstable", "%s: the generated class yields %r, the statements say [90, 1290, 1380] (a "
                        "name is not mapped to one identifier everywhere)" % (label, got), site="program:value")


def fortran_program_probe(ctx, tape, pool):
    """End to end through the real Fortran generator and gfortran: per-step scalars named from the pool,
    read bare (plain copies) and inside expressions; <state>acc must grow by 9.5 per step."""
    from pymbolic import var
    import dagrt.codegen.fortran as f
    from dagrt.language import Assign, DAGCode, ExecutionPhase
    if shutil.which("gfortran") is None:
        return
    cands = [n for n in pool if not is_state_variable(n) and not n.startswith("<") and n.isascii()
             and not any(ord(ch) < 32 for ch in n) and n not in ("probe_c1", "probe_c2", "region")]
    pair = _pick_pair(tape, cands)
    if pair is None:
        return
    n1, n2 = pair
    if tape.chance(0.2, "verbatim_marker"):
        # a name that carries the printers' private marker followed by the identifier of the other name
        try:
            n1 = "q<target>" + FortranNameManager().name_local(n2)
        except Exception:
            pass
    cg_kwargs = {}
    extra_call = ""
    if tape.chance(0.25, "extra_arguments"):
        # generator configuration: an extra dummy argument for every entry point; a per-step variable of the
        # program may be spelled exactly like it
        cg_kwargs = dict(extra_arguments=("region",), extra_argument_decl="\n    integer region\n    ")
        extra_call = "7, "
        if tape.chance(0.7, "local_named_like_extra_argument"):
            n1 = "region"
        ctx.count("probe:generator_with_extra_arguments")
    if tape.chance(0.4, "named_like_identifier"):
        # the second name is spelled like the identifier the generator has handed out for the first
        try:
            ident = FortranNameManager().name_local(n1)
        except Exception:
            ident = None
        if ident and ident != n1 and not ident.startswith("dagrt_"):
            n2 = ident if tape.chance(0.7, "samecase") else ident.upper()

    def asg(sid, name, e, deps):
        return Assign(id=sid, assignee=name, assignee_subscript=(), expression=e, depends_on=deps)
    acc = var("<state>acc")
    stmts = [asg("a1", n1, 1.5, []), asg("a2", n2, 4.0, ["a1"]), asg("c1", "probe_c1", var(n1), ["a2"]),
             asg("c2", "probe_c2", var(n2), ["c1"]),
             asg("s", "<state>acc", acc + var("probe_c1") + 2 * var("probe_c2"), ["c2"]),
             asg("t", "<t>", var("<t>") + var("<dt>"), ["s"])]
    code = DAGCode.from_phases_list([ExecutionPhase(name="main", next_phase="main", statements=stmts)], "main")
    ctx.count("probe:fortran_program_probe")
    label = "fortran program probe (names %r and %r)" % (n1, n2)
    ctx.decoded["fortran_program_probe"] = {"names": [n1, n2]}
    import contextlib
    import io
    try:
        cg = f.CodeGenerator("m", user_type_map={}, **cg_kwargs)
        with contextlib.redirect_stdout(io.StringIO()):
            text = cg(code)
        acc_id = cg.name_manager.name_global("<state>acc")
    except Exception as e:
        raise Violation("unstable", "%s: the Fortran generator fails with %s: %s" % (label, type(e).__name__, e),
                        site="fprogram:" + type(e).__name__)
    driver = """program driver
  use m, only: dagrt_state_type, initialize, run, shutdown
  implicit none
  type(dagrt_state_type), pointer :: st
  integer :: r
  allocate(st)
  call initialize(%sdagrt_state=st, %s=0d0, dagrt_t=0d0, dagrt_dt=1d0)
  do r = 1, 2
    call run(%sdagrt_state=st)
  end do
  write(*,'(F12.4)') st%%%s
  call shutdown(%sdagrt_state=st)
  deallocate(st)
end program
""" % (extra_call, acc_id, extra_call, acc_id, extra_call)
    d = tempfile.mkdtemp(prefix="dagrt-verif-name-", dir=os.environ.get("VERIF_SCRATCH", "/var/tmp"))
    try:
        with open(os.path.join(d, "m.f90"), "w") as fh:
            fh.write(text)
        with open(os.path.join(d, "driver.f90"), "w") as fh:
            fh.write(driver)
        p = subprocess.run(["gfortran", "-O0", "-ffree-line-length-none", "m.f90", "driver.f90", "-o", "prog"], cwd=d,
                           capture_output=True, text=True, timeout=120)
        if p.returncode != 0:
            err = [ln for ln in p.stderr.splitlines() if ln.startswith("Error")][:1]
            raise Violation("compile:fortran", "%s: gfortran rejects the generated module: %s"
                            % (label, err[0] if err else p.stderr[-300:]), site="fprogram")
        r = subprocess.run(["./prog"], cwd=d, capture_output=True, text=True, timeout=60)
        out = r.stdout.strip()
        try:
            val = float(out.split()[-1])
        except Exception:
            val = None
        if r.returncode != 0 or val is None or abs(val - 19.0) > 1e-9:
            raise Violation("unstable", "%s: the compiled module gives <state>acc = %r after two steps (exit %d), "
                            "the statements say 19.0 (a name is not mapped to one identifier everywhere)"
                            % (label, out[-60:], r.returncode), site="fprogram:value")
    finally:
        shutil.rmtree(d, ignore_errors=True)


def sanitised(name):
    return "".join(c if (c.isascii() and (c.isalnum() or c == "_")) else "_" for c in name).lstrip("_")


def run_c13(ctx):
    tape = ctx.tape
    with tape.span("knobs"):
        lang = ["py", "f"][tape.draw(2, "lang")]
        n_ops = 5 + tape.draw(56 if ctx.thorough else 30, "nops")
        do_compile = ctx.thorough or tape.chance(0.125, "compile")
    pool = gen_pool(tape)
    nm = PythonNameManager() if lang == "py" else FortranNameManager()
    model = Model(lang)
    ctx.decoded.update({"lang": "python" if lang == "py" else "fortran", "pool": pool, "ops": []})
    looked = []
    for oi in range(n_ops):
        with tape.span("nameop"):
            if lang == "py":
                op = ["getitem", "entry", "function", "repeat", "clear_locals"][
                    tape.weighted([5, 3, 2, 3, 0.6], "op")]
            else:
                op = ["getitem", "entry", "function", "repeat", "unique", "refcount", "known"][
                    tape.weighted([5, 3, 1, 3, 1.5, 1.5, 0.5], "op")]
            label = "%s op %d %s" % (ctx.decoded["lang"], oi, op)
            if op == "clear_locals":
                nm.clear_locals()
                model.maps["local"] = {}
                ctx.count("probe:clear_locals")
                ctx.count("fault:clear_locals")
                ctx.decoded["ops"].append(["clear_locals"])
                continue
            if op == "repeat" and looked:
                ns, key = looked[tape.draw(len(looked), "which")]
                if ns == "local" and key not in model.maps["local"]:
                    continue
                ctx.count("probe:lookup_repeated")
                ctx.count("fault:lookup_repeated")
            elif op == "function":
                ns, key = "func", FUNC_NAMES[tape.draw(len(FUNC_NAMES), "fname")]
            elif op == "unique":
                prefix = ["x", "hoisted", "res1", "X", "a" * 70, "lploc_x"][tape.draw(6, "uprefix")]
                ident = nm.make_unique_fortran_name(prefix)
                ctx.decoded["ops"].append(["make_unique_fortran_name", prefix, ident])
                check_ident(model, "unique", None, ident, label)
                model.extra.append(ident)
                continue
            elif op == "known":
                cand = [v for _ns, _k, v in model.live()]
                if cand:
                    v = cand[tape.draw(len(cand), "known")]
                    v = ident_part(v, "f")[1]
                    if not nm.is_known_fortran_name(v):
                        raise Violation("unstable", "%s: is_known_fortran_name(%r) is False for an identifier "
                                        "that was handed out" % (label, v), site="known")
                continue
            else:
                key = pool[tape.draw(len(pool), "key")]
                ns = "global" if is_state_variable(key) else "local"
            if op == "refcount":
                key = pool[tape.draw(len(pool), "key")]
                ident = nm.name_refcount(key)
                ctx.decoded["ops"].append(["name_refcount", key, ident])
                pre, rest = ident_part(ident, "f")
                if not F_IDENT.match(rest):
                    raise Violation("illegal:fortran", "%s: refcount name %r of key %r is not a legal identifier%s"
                                    % (label, ident, key, " (longer than 63 characters)" if len(rest) > 63 else ""),
                                    site="too-long" if len(rest) > 63 else "syntax")
                if is_state_variable(key) != ident.startswith("dagrt_state%"):
                    raise Violation("storage-class", "%s: refcount of %r is %r" % (label, key, ident), site="refcount")
                if not is_state_variable(key):
                    rk = "dagrt_refcnt_" + key
                    if rk in model.maps["local"]:
                        if model.maps["local"][rk] != ident:
                            raise Violation("unstable", "%s: refcount name changed" % label, site="refcount")
                    else:
                        check_ident(model, "local", rk, ident, label)
                        model.maps["local"][rk] = ident
                continue
            # --- a lookup
            if ns == "func":
                ident = nm.name_function(key)
                how = "name_function"
            elif op == "entry" or (op == "repeat" and tape.chance(0.5, "viaentry")):
                if ns == "global":
                    ident = nm.name_global(key)
                    how = "name_global"
                    if lang == "f":
                        ident = "dagrt_state%" + ident
                else:
                    ident = nm.name_local(key)
                    how = "name_local"
            else:
                ident = nm[key]
                how = "getitem"
            ctx.decoded["ops"].append([how, key, ident])
            ctx.count("fault:lookup_in_seeded_order")
            ctx.log.add("lookup", how, key, ident)
            m = model.maps[ns]
            # N5 storage class
            if ns != "func":
                in_state = ident.startswith("self.") if lang == "py" else ident.startswith("dagrt_state%")
                if in_state != is_state_variable(key):
                    raise Violation("storage-class", "%s: %r is %s but was mapped to %r"
                                    % (label, key, "persistent" if is_state_variable(key) else "per-step", ident),
                                    site=ns)
            if key in m:
                if m[key] != ident:
                    raise Violation("unstable", "%s: key %r mapped to %r, earlier lookup returned %r"
                                    % (label, key, ident, m[key]), site=ns)
            else:
                check_ident(model, ns, key, ident, label)
                m[key] = ident
                if (ns, key) not in looked:
                    looked.append((ns, key))
    if do_compile:
        compile_probe(ctx, model)
        if lang == "py":
            with tape.span("program_probe"):
                program_probe(ctx, tape, pool)
        else:
            with tape.span("fortran_program_probe"):
                if ctx.thorough or tape.chance(0.3, "fprobe"):
                    fortran_program_probe(ctx, tape, pool)
    keys = [k for ns, k, v in model.live() if k is not None]
    san = [sanitised(k) for k in keys]
    if len(set(san)) < len(san):
        ctx.count("probe:sanitised_collision")
    if len(set(s.lower() for s in san)) < len(set(san)):
        ctx.count("probe:casefold_collision")
    if any(len(s) > 55 for s in san):
        ctx.count("probe:long_name")
    if any(not s for s in san):
        ctx.count("probe:empty_after_sanitising")
    if any(k in LOOKS_GENERATED for k in keys):
        ctx.count("probe:looks_generated")
    ctx.nontrivial = len(set(s.lower() for s in san)) < len(san) or any(len(s) > 55 for s in san)
    ctx.dkey(lang, pool, [o[:2] for o in ctx.decoded["ops"]])
    ctx.count("lang:" + lang)
    ctx.sample = {"lang": ctx.decoded["lang"], "pool": pool[:8], "ops": ctx.decoded["ops"][:10]}
