"""Reference stepper (DESIGN.md Appendix A): executes the *script* call by call
in written order on a dict.  It never sees a dagrt statement, dependency or
pymbolic object."""
import math

import numpy as np

from simdag.gen.expr import IllDefined
from simdag.gen.script import FUNCS


def is_persistent(name):
    return name.startswith("<state>") or name.startswith("<p>") or name in ("<t>", "<dt>")


def ref_builtin(fn, args, kwargs):
    def one():
        if kwargs:
            (k, v), = kwargs.items()
            if k != "x" and k != "n":
                raise IllDefined("builtin-kw")
            return v
        return args[0]
    if fn == "<builtin>len":
        x = one()
        return int(np.size(x))
    if fn == "<builtin>isnan":
        x = one()
        if isinstance(x, np.ndarray):
            return np.isnan(x)
        return bool(math.isnan(x))
    if fn in ("<builtin>norm_1", "<builtin>norm_2", "<builtin>norm_inf"):
        x = one()
        if np.isscalar(x):
            return abs(x)
        ordv = {"<builtin>norm_1": 1, "<builtin>norm_2": 2, "<builtin>norm_inf": np.inf}[fn]
        return np.linalg.norm(x, ordv)
    if fn == "<builtin>elementwise_abs":
        return np.abs(one())
    if fn == "<builtin>dot_product":
        vals = dict(zip(["x", "y"], args))
        vals.update(kwargs)
        if sorted(vals) != ["x", "y"]:
            raise IllDefined("builtin-args")
        return np.vdot(vals["x"], vals["y"])
    if fn == "<builtin>transpose":
        vals = dict(zip(["a", "a_cols"], args))
        vals.update(kwargs)
        if sorted(vals) != ["a", "a_cols"]:
            raise IllDefined("builtin-args")
        a_mat = np.asarray(vals["a"]).reshape(-1, int(vals["a_cols"]), order="F")
        return np.transpose(a_mat).reshape(-1, order="F")
    if fn == "<builtin>matmul":
        names = ["a", "b", "a_cols", "b_cols"]
        vals = dict(zip(names, args))
        for k, v in kwargs.items():
            if k in vals or k not in names:
                raise IllDefined("builtin-kw")
            vals[k] = v
        if len(vals) != 4:
            raise IllDefined("builtin-args")
        a_mat = np.asarray(vals["a"]).reshape(-1, int(vals["a_cols"]), order="F")
        b_mat = np.asarray(vals["b"]).reshape(-1, int(vals["b_cols"]), order="F")
        return a_mat.dot(b_mat).reshape(-1, order="F")
    if fn == "<builtin>array":
        n = one()
        if n != int(n):
            raise IllDefined("array-size")
        return np.full(int(n), np.nan)
    raise IllDefined("unknown-builtin:" + fn)


class StepEnd(Exception):
    def __init__(self, kind, arg=None):
        self.kind, self.arg = kind, arg


class RefStepper:
    def __init__(self, script, nm, call_hook=None):
        self.sc = script
        self.nm = nm
        self.call_hook = call_hook     # optional: (fn, args, kwargs) -> result, for call logging
        self.vars = {}
        self.next_phase = script.initial
        self.events = []
        self.writes = None             # per-step: name -> list of assigned values (C11)
        self.tolerant = False          # set once compensated and naive summation disagree
        self.scale = 0.0               # largest magnitude seen in sums (absolute tolerance scale)
        self.inexact_events = 0
        self.probes = {}
        self.cur_op = None
        self.op_trace = None

    # R interface used by the expression trees
    def note_inexact(self, r, naive):
        self.tolerant = True
        self.inexact_events += 1

    def note_scale(self, v):
        try:
            m = float(np.max(np.abs(v))) if isinstance(v, np.ndarray) else abs(float(v))
        except Exception:
            return
        if m > self.scale and m < 1e300:
            self.scale = m

    def read(self, name):
        name = self.nm(name)
        if name not in self.vars:
            raise IllDefined("read-unassigned:" + name)
        return self.vars[name]

    def call(self, fn, args, kwargs):
        if fn.startswith("<builtin>"):
            return ref_builtin(fn, args, kwargs)
        if self.call_hook is not None:
            return self.call_hook(fn, args, kwargs)
        return self.sc.func_impl(fn)(*args, **kwargs)

    def probe(self, name):
        self.probes[name] = self.probes.get(name, 0) + 1

    def set_up(self, t0, dt0, state):
        self.vars = {"<t>": t0, "<dt>": dt0}
        for k, v in state.items():
            self.vars["<state>" + k] = v.copy() if isinstance(v, np.ndarray) else v
        self.next_phase = self.sc.initial

    def _store(self, name, value):
        self.vars[name] = value
        if self.writes is not None and is_persistent(name):
            self.writes.setdefault(name, []).append(
                (self.cur_op, value.copy() if isinstance(value, np.ndarray) else value))

    def _assign(self, op):
        _, tgt, sub, e, loops, _mode = op
        name = self.nm(tgt)

        def body():
            v = e.ev(self, True)
            if sub is None:
                self._store(name, v)
            else:
                if name not in self.vars or not isinstance(self.vars[name], np.ndarray):
                    raise IllDefined("element-assign-to-non-array")
                i = sub.ev(self, False)
                if isinstance(i, bool) or not isinstance(i, (int, np.integer)):
                    raise IllDefined("non-integer-subscript")
                if not (0 <= i < len(self.vars[name])):
                    raise IllDefined("subscript-range")
                if isinstance(v, np.ndarray):
                    raise IllDefined("array-into-element")
                self.vars[name][i] = v
                if self.writes is not None and is_persistent(name):
                    self.writes.setdefault(name, []).append((self.cur_op, ("elem", int(i), v)))

        def run_loops(ls):
            if not ls:
                body()
                return
            c, lo, hi = ls[0]
            c = self.nm(c)
            lo_v, hi_v = lo.ev(self, False), hi.ev(self, False)
            for x in (lo_v, hi_v):
                if isinstance(x, bool) or not isinstance(x, (int, np.integer)):
                    raise IllDefined("non-integer-bound")
            if hi_v - lo_v > 64:
                raise IllDefined("long-loop")
            if hi_v <= lo_v:
                self.probe("zero_trip_loop")
            for i in range(lo_v, hi_v):
                self.vars[c] = i
                run_loops(ls[1:])

        if loops:
            for c, _lo, _hi in loops:
                if self.nm(c) in self.vars:
                    raise IllDefined("counter-shadows-variable")
            run_loops(loops)
            for c, _lo, _hi in loops:
                self.vars.pop(self.nm(c), None)
        else:
            body()

    def exec_block(self, ops):
        for op in ops:
            k = op[0]
            self.cur_op = op
            if k == "assign":
                self._assign(op)
            elif k == "call":
                _, asg, e, _mode = op
                args = [a.ev(self, False) for a in e.args]
                kwargs = {kk: v.ev(self, False) for kk, v in e.kwargs}
                res = self.call(e.fn, args, kwargs)
                if len(asg) == 1:
                    self._store(self.nm(asg[0]), res)
                elif len(asg) > 1:
                    if len(res) != len(asg):
                        raise IllDefined("arity")
                    for a, r in zip(asg, res):
                        self._store(self.nm(a), r)
            elif k == "if":
                _, form, then, else_ = op
                self.cur_op = op
                if form[0] == "1":
                    flag = form[1].ev(self, True)
                else:
                    from simdag.gen.expr import CMP
                    flag = CMP[form[2]](form[1].ev(self, True), form[3].ev(self, True))
                if isinstance(flag, np.ndarray):
                    raise IllDefined("array-condition")
                if flag:
                    self.exec_block(then)
                elif else_ is not None:
                    self.probe("else_taken")
                    self.exec_block(else_)
            elif k == "yield":
                _, e, comp, te, tid, _mode = op
                tv = te.ev(self, False)
                v = e.ev(self, False)
                self.emit(("state", tv, tid, comp, v.copy() if isinstance(v, np.ndarray) else v))
            elif k == "fresh":
                pass
            elif k == "fail":
                raise StepEnd("failed")
            elif k == "switch":
                self.probe("step_switched")
                raise StepEnd("switch", op[1])
            elif k == "restart":
                self.probe("step_restarted")
                raise StepEnd("switch", self.cur)
            elif k == "raise":
                raise StepEnd("raised", op[1])
            else:
                raise AssertionError(k)

    def emit(self, ev):
        self.events.append(ev)

    def step(self):
        """One run_single_step.  Returns 'completed' | 'failed' | ('raised', kind)."""
        self.cur = cur = self.next_phase
        ph = self.sc.phase(cur)
        self.next_phase = ph.next_phase
        try:
            try:
                self.exec_block(ph.ops)
            finally:
                for name in list(self.vars):
                    if not is_persistent(name):
                        del self.vars[name]
        except StepEnd as se:
            if se.kind == "failed":
                return "failed"
            if se.kind == "switch":
                self.next_phase = se.arg
                return "completed"
            return ("raised", se.arg)
        return "completed"

    def run(self, t_end=None, max_steps=None, event_cap=64):
        """Appends events to self.events; returns 'done' | 'cap' | ('raised', kind)."""
        n = 0
        n_events0 = len(self.events)
        while True:
            if t_end is not None and self.vars["<t>"] >= t_end:
                return "done"
            if max_steps is not None and n >= max_steps:
                return "done"
            if len(self.events) - n_events0 >= event_cap:
                return "cap"
            cur = self.next_phase
            out = self.step()
            if out == "failed":
                self.emit(("failed", self.vars["<t>"]))
                continue
            if isinstance(out, tuple):
                return out
            self.emit(("completed", self.vars["<dt>"], self.vars["<t>"], cur, self.next_phase))
            n += 1

    def persistent(self):
        return {k: (v.copy() if isinstance(v, np.ndarray) else v) for k, v in self.vars.items()
                if is_persistent(k)}


def same_value(a, b, tol=None):
    """Value comparison: arrays elementwise, NaN = NaN, bools only equal bools.
    tol=None: exact.  tol=(rel, abs): used only once the reference has seen
    compensated and naive float summation disagree (tolerant mode)."""
    if isinstance(a, (tuple, list)) or isinstance(b, (tuple, list)):
        # (a tuple-valued call result; NaN = NaN inside it as everywhere else)
        return (type(a) is type(b) and len(a) == len(b)
                and all(same_value(x, y, tol) for x, y in zip(a, b)))
    a_arr, b_arr = isinstance(a, np.ndarray), isinstance(b, np.ndarray)
    if a_arr or b_arr:
        if not (a_arr and b_arr) or a.shape != b.shape:
            return False
        if a.dtype == object or b.dtype == object:
            return all(same_value(x, y, tol) for x, y in zip(a.tolist(), b.tolist()))
        if tol is None:
            return bool(np.array_equal(a, b, equal_nan=True))
        return all(same_value(x, y, tol) for x, y in zip(a.tolist(), b.tolist()))
    a_bool = isinstance(a, (bool, np.bool_))
    b_bool = isinstance(b, (bool, np.bool_))
    if a_bool != b_bool:
        return False
    if a is None or b is None:
        return a is b
    try:
        if a != a and b != b:
            return True
        if a == b:
            return True
        if tol is not None and not a_bool:
            return abs(a - b) <= tol[0] * max(abs(a), abs(b)) + tol[1]
        return False
    except Exception:
        return False
