"""./check entry point: tiers, seeds, replay, known findings, exit codes 0/1/2."""
import argparse
import importlib
import json
import os
import subprocess
import sys
import time

from simdag.core import evidence as evmod
from simdag.core import runner
from simdag.core.minimise import minimise
from simdag.core.tape import Tape

HOME = os.environ.get("VERIF_HOME", "/verif")
OUT = os.path.join(HOME, "out")
REPLAYS = os.path.join(OUT, "replays")


def meta_for(prop):
    modname, _ = runner.REGISTRY[prop]
    mod = importlib.import_module(modname)
    return mod.META[prop]


def load_known():
    path = os.path.join(HOME, "known_findings.json")
    if not os.path.exists(path):
        return []
    with open(path) as f:
        return json.load(f).get("findings", [])


def make_env(prop, tier, extra=None):
    env = {"tier": tier}
    if extra:
        env.update(extra)
    return env


def write_replay(prop, env, seed, index, tape, out, minimised_runs, path=None):
    os.makedirs(REPLAYS, exist_ok=True)
    if path is None:
        path = os.path.join(REPLAYS, "%s-%d.json" % (prop, seed))
    doc = {
        "property": prop,
        "engine": runner.REGISTRY[prop][0],
        "env": env,
        "seed": seed,
        "index": index,
        "tape": list(tape.values),
        "spans": [list(s) for s in tape.spans if s[1] > s[0]],
        "violation": {"class": out.cls, "site": out.site, "detail": out.detail},
        "digest": out.digest,
        "minimise_runs": minimised_runs,
        "decoded": out.decoded,
    }
    with open(path, "w") as f:
        json.dump(doc, f, indent=1, default=str)
        f.write("\n")
    return path


def do_replay(prop, path, quiet=False):
    with open(path) as f:
        doc = json.load(f)
    if doc["property"] != prop:
        print("replay file is for %s, not %s" % (doc["property"], prop))
        return 2
    runner.check_repo_import()
    env = dict(doc["env"])
    env["want_decoded"] = True
    tape = Tape(recorded=doc["tape"])
    out, ctx = runner.execute(prop, tape, env)
    print("replay outcome: kind=%s class=%s site=%s" % (out.kind, out.cls, out.site))
    if out.detail and not quiet:
        print("detail: " + out.detail)
    if out.kind == "harness_error":
        print(out.detail)
        return 2
    want = doc["violation"]
    if out.kind == "violation":
        same = (out.cls == want["class"] and out.site == want["site"]
                and out.detail == want["detail"] and out.digest == doc.get("digest", out.digest))
        print("REPLAY-RESULT " + json.dumps({"kind": out.kind, "class": out.cls,
              "site": out.site, "same": same, "digest": out.digest}))
        if not quiet and out.decoded:
            print(json.dumps(out.decoded, indent=1, default=str)[:6000])
        print("VIOLATION property=%s replay=%s" % (prop, os.path.abspath(path)))
        return 1
    print("REPLAY-RESULT " + json.dumps({"kind": out.kind, "class": out.cls,
                                         "site": out.site, "same": False,
                                         "digest": out.digest}))
    return 0


def verify_replay_fresh(prop, path):
    """Re-execute the replay in a fresh process; it must reproduce exactly."""
    p = subprocess.run([os.path.join(HOME, "check"), prop, "--replay", path, "--quiet"],
                       capture_output=True, text=True, timeout=900)
    for line in p.stdout.splitlines():
        if line.startswith("REPLAY-RESULT "):
            r = json.loads(line[len("REPLAY-RESULT "):])
            return bool(r.get("same")), p.stdout[-2000:]
    return False, (p.stdout + p.stderr)[-2000:]


def run_check(prop, tier, verif_seed, n_runs, budget_s, workers, args):
    meta = meta_for(prop)
    env = make_env(prop, tier)
    t0 = time.time()
    if tier == "quick":
        if n_runs is None:
            n_runs = meta.get("quick_runs", 1000)
        budget = None
    else:
        budget = budget_s if budget_s is not None else float(
            os.environ.get("VERIF_BUDGET_S", meta.get("thorough_budget_s", 600)))
        if n_runs is not None:
            budget = None
    runner.check_repo_import()
    try:
        total = runner.run_batch(prop, env, verif_seed, n_runs=n_runs, budget_s=budget,
                                 workers=workers, block=meta.get("block", 25),
                                 block_limit=meta.get("block_limit", 900))
    except runner.HarnessFailure as e:
        print("HARNESS-ERROR property=%s %s" % (prop, e))
        return 2

    rc = 0
    if total["harness"]:
        h = total["harness"][0]
        print("HARNESS-ERROR property=%s index=%d seed=%d class=%s\n%s"
              % (prop, h["index"], h["seed"], h["cls"], h["detail"]))
        print("(%d harness errors in total)" % len(total["harness"]))
        rc = 2

    known = [k for k in load_known() if k.get("property") == prop]
    known_sigs = {k["signature"]: k for k in known if k.get("status") == "known"}
    groups = {}
    for v in sorted(total["violations"], key=lambda v: v["index"]):
        groups.setdefault(v["cls"] + "|" + v["site"], []).append(v)

    n_unlisted = 0
    known_hits = {}
    reported = []
    for sig, vs in groups.items():
        if sig in known_sigs:
            known_hits[sig] = len(vs)
            continue
        n_unlisted += len(vs)
        if len(reported) >= int(os.environ.get("VERIF_MAX_REPORTS", "4")):
            continue
        v = vs[0]
        best, out, tape, runs = None, None, None, 0
        if not args.no_minimise:
            best, out, tape, runs = minimise(prop, v["values"], env, sig,
                                             max_runs=meta.get("min_runs", 1500),
                                             max_s=meta.get("min_s", 60.0))
        if best is None:
            # replay as recorded (also the path when the first re-run does not reproduce)
            tape = Tape(recorded=v["values"])
            env2 = dict(env, want_decoded=True)
            out, _ = runner.execute(prop, tape, env2)
            if not (out.kind == "violation" and out.sig == sig):
                print("HARNESS-ERROR property=%s violation at index %d (%s) did not "
                      "reproduce in-process: got %s %s" % (prop, v["index"], sig,
                                                           out.kind, out.sig))
                rc = 2
                continue
        else:
            env2 = dict(env, want_decoded=True)
            tape = Tape(recorded=best)
            out, _ = runner.execute(prop, tape, env2)
        path = write_replay(prop, env, v["seed"], v["index"], tape, out, runs)
        ok, txt = verify_replay_fresh(prop, path)
        if not ok:
            print("HARNESS-ERROR property=%s replay %s did not reproduce in a fresh "
                  "process:\n%s" % (prop, path, txt))
            rc = 2
            continue
        reported.append((sig, path, len(vs), out))

    for sig, k in known_sigs.items():
        # a KNOWN-FINDING line for each listed finding (hit count shown)
        print("KNOWN-FINDING: property=%s %s [signature=%s, hit by %d runs]"
              % (prop, k.get("description", ""), sig, known_hits.get(sig, 0)))
    for sig, path, cnt, out in reported:
        print("violation class=%s site=%s runs=%d detail=%s"
              % (out.cls, out.site, cnt, out.detail[:500]))
        print("VIOLATION property=%s replay=%s" % (prop, path))
        if rc == 0:
            rc = 1

    wall = time.time() - t0
    n_eval = total["n"]
    cov = {
        "evaluations": n_eval,
        "distinct_nontrivial": len(total["dkeys"]),
        "rule": meta["rule"],
        "samples": total["samples"][:3] or [{"note": "no non-trivial ok run produced a sample"}],
        "outcomes": total["kinds"],
        "discards": total["discards"],
        "runs_per_hour": int(n_eval / max(total.get("wall_s", wall), 1e-6) * 3600),
        "seeds": {"verif_seed": verif_seed, "first_index": 0, "count": n_eval,
                  "derivation": "derive_seed(VERIF_SEED, property, index)"},
        "counters": dict(sorted(total["counters"].items())),
        "faults_injected": {k[6:]: v for k, v in sorted(total["counters"].items())
                            if k.startswith("fault:")},
        "reach_probes": {k[6:]: v for k, v in sorted(total["counters"].items())
                         if k.startswith("probe:")},
        "real_components": meta.get("real", []),
        "stubbed_components": meta.get("stub", []),
        "workers": workers,
        "cpu_s": round(total["cpu_s"], 2),
        "mean_tape_len": round(total["tape_len"] / max(n_eval, 1), 1),
        "known_findings_hit": known_hits,
        "unlisted_violating_runs": n_unlisted,
    }
    for k in ("simulated_time", "steps", "distinct_interleavings"):
        if "sum:" + k in total["counters"]:
            cov[k] = total["counters"]["sum:" + k]
    st = selftest_summary(prop)
    if st:
        cov["selftests"] = st
    zero = [k for k, v in cov["reach_probes"].items() if v == 0]
    for name in meta.get("probes", []):
        if name not in cov["reach_probes"]:
            cov["reach_probes"][name] = 0
            zero.append(name)
    if zero and (tier == "thorough" or n_eval >= meta.get("quick_runs", 1000)):
        print("warning: reach probes at zero: %s" % ", ".join(sorted(set(zero))))
    ev = {
        "property_id": prop,
        "tier": tier,
        "seed": verif_seed,
        "level": meta["level"],
        "coverage": cov,
        "assumptions": meta.get("assumptions", []),
        "wall_s": round(wall, 2),
        "violations": n_unlisted,
    }
    try:
        evmod.write(os.path.join(os.environ.get("VERIF_EVIDENCE_DIR") or os.path.join(HOME, "evidence"),
                                 prop + ".json"), ev)
    except Exception as e:
        if rc == 1:
            print("note: evidence file not written (%s); violations were reported above" % (e,))
        else:
            print("HARNESS-ERROR property=%s evidence invalid: %s" % (prop, e))
            return 2
    print("%s %s: %d runs (%s), %d distinct non-trivial, %.1fs wall, exit %d"
          % (prop, tier, n_eval,
             ", ".join("%s=%d" % kv for kv in sorted(total["kinds"].items())),
             len(total["dkeys"]), wall, rc))
    return rc


def selftest_summary(prop):
    path = os.path.join(HOME, "selftest_results.json")
    if not os.path.exists(path):
        return None
    try:
        with open(path) as f:
            d = json.load(f)
        return d.get(prop)
    except Exception:
        return None


def main(argv):
    ap = argparse.ArgumentParser(prog="check")
    ap.add_argument("prop", nargs="?")
    ap.add_argument("--tier", default=os.environ.get("VERIF_TIER", "quick"),
                    choices=["quick", "thorough"])
    ap.add_argument("--seed", type=int, default=None)
    ap.add_argument("--runs", type=int, default=None)
    ap.add_argument("--budget", type=float, default=None)
    ap.add_argument("--workers", type=int,
                    default=int(os.environ.get("VERIF_WORKERS", min(16, os.cpu_count() or 1))))
    ap.add_argument("--replay")
    ap.add_argument("--quiet", action="store_true")
    ap.add_argument("--no-minimise", action="store_true")
    ap.add_argument("--one", type=int, default=None, help="run one index verbosely")
    ap.add_argument("--digests", action="store_true",
                    help="print per-run digests for --runs indices (determinism self-test)")
    ap.add_argument("--selftest-determinism", action="store_true")
    ap.add_argument("--selftest-mutants", action="store_true")
    ap.add_argument("--props", default=None)
    args = ap.parse_args(argv)

    verif_seed = args.seed if args.seed is not None else int(os.environ.get("VERIF_SEED", "0"))

    if args.selftest_determinism:
        from simdag.selftest.determinism import main as dmain
        return dmain(args, verif_seed)
    if args.selftest_mutants:
        from simdag.selftest.mutants import main as mmain
        return mmain(args, verif_seed)

    if not args.prop or args.prop not in runner.REGISTRY:
        print("usage: check <%s> ..." % "|".join(sorted(runner.REGISTRY)))
        return 2
    prop = args.prop

    if args.replay:
        return do_replay(prop, args.replay, quiet=args.quiet)

    if args.one is not None:
        runner.check_repo_import()
        env = make_env(prop, args.tier, {"want_decoded": True, "keep_log": True})
        seed = runner.run_seed(verif_seed, prop, args.one)
        tape = Tape(seed=seed)
        out, ctx = runner.execute(prop, tape, env)
        print(json.dumps({"kind": out.kind, "cls": out.cls, "site": out.site,
                          "detail": out.detail, "counters": out.counters,
                          "nontrivial": out.nontrivial, "digest": out.digest,
                          "tape_len": len(tape.values)}, indent=1, default=str))
        if not args.quiet:
            print(json.dumps(out.decoded, indent=1, default=str))
        return 0

    if args.digests:
        runner.check_repo_import()
        env = make_env(prop, args.tier)
        total = runner.run_batch(prop, env, verif_seed, n_runs=args.runs or 100,
                                 workers=args.workers, want_digests=True,
                                 block=meta_for(prop).get("block", 25))
        print("DIGESTS " + json.dumps({str(k): v for k, v in sorted(total["digests"].items())}))
        return 0

    return run_check(prop, args.tier, verif_seed, args.runs, args.budget, args.workers, args)
