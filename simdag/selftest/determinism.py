"""Determinism self-test: every run seed is executed twice -- in this process tree with
16 workers under PYTHONHASHSEED=0, and in a fresh interpreter with 3 workers under
PYTHONHASHSEED=12345 -- and the per-run digests (event log + decoded workload, schedule,
faults + outcome + counters + consumed tape) are compared.

./check --selftest-determinism [--props C02,C04] [--runs N]
"""
import json
import os
import subprocess
import time

from simdag.core import runner

HOME = os.environ.get("VERIF_HOME", "/verif")
DEFAULT_RUNS = {"C01": 2000, "C02": 2000, "C04": 4000, "C05": 4000, "C11": 1500, "C13": 3000, "C16": 1500,
                "C03": 300, "C12": 200, "C14": 160, "C15": 64}


def digests(prop, runs, workers, hashseed, verif_seed):
    env = dict(os.environ, VERIF_HASHSEED=str(hashseed), VERIF_SEED=str(verif_seed))
    env.pop("PYTHONHASHSEED", None)
    p = subprocess.run([os.path.join(HOME, "check"), prop, "--digests", "--runs", str(runs),
                        "--workers", str(workers)], env=env, capture_output=True, text=True, timeout=7200)
    for line in p.stdout.splitlines():
        if line.startswith("DIGESTS "):
            return json.loads(line[8:])
    raise RuntimeError("no digests from %s: %s" % (prop, (p.stdout + p.stderr)[-1500:]))


def main(args, verif_seed):
    props = args.props.split(",") if args.props else sorted(runner.REGISTRY)
    path = os.path.join(HOME, "selftest_results.json")
    try:
        with open(path) as f:
            allres = json.load(f)
    except Exception:
        allres = {}
    rc = 0
    for prop in props:
        n = args.runs or DEFAULT_RUNS.get(prop, 100)
        t0 = time.time()
        a = digests(prop, n, 16, 0, verif_seed)
        b = digests(prop, n, 3, 12345, verif_seed)
        mism = sorted(k for k in a if a[k] != b.get(k))
        print("DETERMINISM %s: %d seeds x 2 (16 workers/hashseed 0 vs 3 workers/hashseed 12345): %d mismatches %s (%.0fs)"
              % (prop, n, len(mism), mism[:8], time.time() - t0))
        allres.setdefault(prop, {})["determinism"] = {"seeds": n, "mismatches": len(mism),
                                                      "configs": ["16 workers, PYTHONHASHSEED=0",
                                                                  "3 workers, PYTHONHASHSEED=12345, fresh interpreter"],
                                                      "verif_seed": verif_seed}
        if mism:
            rc = 1
    with open(path, "w") as f:
        json.dump(allres, f, indent=1, sort_keys=True)
        f.write("\n")
    return rc
