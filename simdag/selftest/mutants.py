"""Sensitivity self-test: apply small realistic mutations of dagrt in a scratch
copy (outside /repo and /verif), run the quick check against the copy with
VERIF_REPO, expect exit 1 with a replayable VIOLATION; delete the copy.

./check --selftest-mutants [--props C02,C04] [--runs N]
"""
import json
import os
import shutil
import subprocess
import sys
import tempfile
import time

HOME = os.environ.get("VERIF_HOME", "/verif")

from simdag.selftest.mutant_table import MUTANTS  # noqa: E402


def scratch_root():
    return os.environ.get("VERIF_SCRATCH", "/var/tmp")


def make_copy(repo):
    d = tempfile.mkdtemp(prefix="dagrt-verif-mut-", dir=scratch_root())
    shutil.copytree(os.path.join(repo, "dagrt"), os.path.join(d, "dagrt"),
                    ignore=shutil.ignore_patterns("__pycache__"))
    for extra in ("test", "setup.cfg", "setup.py"):
        src = os.path.join(repo, extra)
        if os.path.isdir(src):
            shutil.copytree(src, os.path.join(d, extra), ignore=shutil.ignore_patterns("__pycache__"))
        elif os.path.exists(src):
            shutil.copy(src, d)
    return d


def apply_mutant(copy, m):
    edits = m.get("edits") or [dict(file=m["file"], old=m["old"], new=m["new"])]
    for e in edits:
        path = os.path.join(copy, e["file"])
        with open(path) as f:
            s = f.read()
        if s.count(e["old"]) != 1:
            return "anchor text found %d times in %s" % (s.count(e["old"]), e["file"])
        with open(path, "w") as f:
            f.write(s.replace(e["old"], e["new"]))
    return None


def run_tests(copy):
    env = dict(os.environ, PYTHONPATH=copy, PYTHONDONTWRITEBYTECODE="1")
    p = subprocess.run(["/venv/bin/python", "-m", "pytest", "-q", "-x", "-p", "no:cacheprovider",
                        "--timeout=900", os.path.join(copy, "test")],
                       cwd=copy, env=env, capture_output=True, text=True, timeout=1800)
    tail = p.stdout.strip().splitlines()[-1:] if p.stdout.strip() else [""]
    return p.returncode == 0, tail[0]


def run_check(copy, prop, runs, seed):
    env = dict(os.environ, VERIF_REPO=copy, VERIF_SEED=str(seed))
    env.pop("PYTHONPATH", None)
    out_dir = tempfile.mkdtemp(prefix="dagrt-verif-mutout-", dir=scratch_root())
    cmd = [os.path.join(HOME, "check"), prop, "--tier", "quick"]
    if runs:
        cmd += ["--runs", str(runs)]
    if os.environ.get("VERIF_MUTANT_FAST", "1") == "1":
        cmd += ["--no-minimise"]
        env["VERIF_MAX_REPORTS"] = "1"
    t0 = time.time()
    # evidence of mutant runs must not overwrite the real evidence: run in a throw-away VERIF_HOME view
    env["VERIF_EVIDENCE_DIR"] = out_dir
    p = subprocess.run(cmd, env=env, capture_output=True, text=True, timeout=3600)
    shutil.rmtree(out_dir, ignore_errors=True)
    lines = [ln for ln in p.stdout.splitlines() if ln.startswith(("VIOLATION", "violation class", "HARNESS"))]
    return p.returncode, lines, time.time() - t0


def main(args, verif_seed):
    repo = os.environ.get("VERIF_REPO", "/repo")
    want_props = set(args.props.split(",")) if args.props else None
    results = {}
    summary = []
    ok_all = True
    only = os.environ.get("VERIF_MUTANT_ONLY")
    for m in MUTANTS:
        props = [p for p in m["props"] if want_props is None or p in want_props]
        if not props or (only and only not in m["id"]):
            continue
        copy = make_copy(repo)
        try:
            err = apply_mutant(copy, m)
            if err:
                print("MUTANT %-34s SKIPPED (%s)" % (m["id"], err))
                summary.append((m["id"], "skipped", err))
                ok_all = False
                continue
            tests_ok, tail = (True, "not run")
            if not getattr(args, "quiet", False) and os.environ.get("VERIF_MUTANT_TESTS", "1") == "1":
                tests_ok, tail = run_tests(copy)
            for prop in props:
                rc, lines, wall = run_check(copy, prop, args.runs, verif_seed)
                killed = rc == 1 and any(ln.startswith("VIOLATION property=%s " % prop) for ln in lines)
                if not killed:
                    ok_all = False
                print("MUTANT %-34s %s: %s (exit %d, %.0fs) tests:%s %s"
                      % (m["id"], prop, "KILLED" if killed else "SURVIVED", rc, wall,
                         "pass" if tests_ok else "FAIL", (lines[0][:150] if lines else "")))
                results.setdefault(prop, {})[m["id"]] = bool(killed)
        finally:
            shutil.rmtree(copy, ignore_errors=True)
    path = os.path.join(HOME, "selftest_results.json")
    try:
        with open(path) as f:
            allres = json.load(f)
    except Exception:
        allres = {}
    for prop, r in results.items():
        cur = allres.setdefault(prop, {}).get("mutants", {})
        by_id = dict(cur.get("by_id", {})) if isinstance(cur, dict) else {}
        by_id.update(r)
        # forget mutants that left the catalogue
        known = set(m["id"] for m in MUTANTS if prop in m["props"])
        by_id = {k: v for k, v in by_id.items() if k in known}
        allres[prop]["mutants"] = {"by_id": dict(sorted(by_id.items())), "mutants_run": len(by_id),
                                   "mutants_killed": sum(1 for v in by_id.values() if v),
                                   "survivors": sorted(k for k, v in by_id.items() if not v)}
    with open(path, "w") as f:
        json.dump(allres, f, indent=1, sort_keys=True)
        f.write("\n")
    return 0 if ok_all else 1
