"""Event log with a global sequence number (never a timestamp) and a digest."""
import hashlib
import json


def vdigest(v):
    """Exact, hash-seed independent rendering of a value."""
    import numpy as np
    if isinstance(v, np.ndarray):
        if v.dtype == object:
            return ["objarr", [vdigest(x) for x in v.tolist()]]
        return ["arr", str(v.dtype), list(v.shape), v.tobytes().hex()]
    if isinstance(v, np.generic):
        return ["np", str(v.dtype), repr(v.item())]
    if isinstance(v, (bool, int, float, complex, str)) or v is None:
        return [type(v).__name__, repr(v)]
    if isinstance(v, (list, tuple)):
        return [type(v).__name__, [vdigest(x) for x in v]]
    if isinstance(v, (set, frozenset)):
        return ["set", sorted(repr(x) for x in v)]
    if isinstance(v, dict):
        return ["dict", sorted((repr(k), vdigest(x)) for k, x in v.items())]
    return ["obj", type(v).__name__]


class EventLog:
    def __init__(self, keep=True):
        self.events = [] if keep else None
        self.seq = 0
        self._h = hashlib.sha256()

    def add(self, *ev):
        self.seq += 1
        s = json.dumps(ev, default=str, separators=(",", ":"))
        self._h.update(s.encode())
        self._h.update(b"\n")
        if self.events is not None:
            self.events.append(ev)

    def digest(self):
        return self._h.hexdigest()
