"""Choice tape: the single source of every decision in a simulated run.

Generation mode: values come from random.Random(seed).  Replay mode: values
come from a recorded list (0 when exhausted, clamped into range).  The list of
values actually consumed (``tape.values``) together with the code under test
*is* the execution.  0 is always the simplest choice.
"""
import random
from contextlib import contextmanager

MASK = (1 << 64) - 1


def splitmix64(x):
    x = (x + 0x9E3779B97F4A7C15) & MASK
    z = x
    z = ((z ^ (z >> 30)) * 0xBF58476D1CE4E5B9) & MASK
    z = ((z ^ (z >> 27)) * 0x94D049BB133111EB) & MASK
    return z ^ (z >> 31)


def derive_seed(*parts):
    """Stable (hash-seed independent) mixing of ints and strings."""
    h = 0x243F6A8885A308D3
    for p in parts:
        if isinstance(p, str):
            v = 0
            for ch in p.encode():
                v = (v * 131 + ch) & MASK
        else:
            v = int(p) & MASK
        h = splitmix64(h ^ v)
    return h


class Tape:
    def __init__(self, seed=None, recorded=None):
        self.seed = seed
        self._rec = list(recorded) if recorded is not None else None
        self._rng = random.Random(seed) if recorded is None else None
        self.values = []
        self.spans = []          # [start, end, label]
        self._open = []
        self.overrun = False

    @property
    def replaying(self):
        return self._rec is not None

    def _next(self, n, gen):
        pos = len(self.values)
        if self._rec is not None:
            if pos < len(self._rec):
                v = self._rec[pos]
                if not isinstance(v, int) or v < 0:
                    v = 0
                elif v >= n:
                    v = n - 1
            else:
                v = 0
                self.overrun = True
        else:
            v = gen()
        self.values.append(v)
        return v

    def draw(self, n, label=""):
        """int in [0, n)."""
        if n <= 1:
            return 0
        return self._next(n, lambda: self._rng.randrange(n))

    def weighted(self, weights, label=""):
        """index into weights, chosen with the given relative weights."""
        n = len(weights)
        if n <= 1:
            return 0

        def gen():
            total = float(sum(weights))
            r = self._rng.random() * total
            acc = 0.0
            for i, w in enumerate(weights):
                acc += w
                if r < acc:
                    return i
            return n - 1
        v = self._next(n, gen)
        if weights[v] <= 0:
            for i, w in enumerate(weights):
                if w > 0:
                    self.values[-1] = i
                    return i
        return v

    def chance(self, p, label=""):
        if p <= 0:
            return False
        if p >= 1:
            return True
        return self.weighted([1.0 - p, p], label) == 1

    def choice(self, seq, label=""):
        return seq[self.draw(len(seq), label)]

    def perm(self, n, label=""):
        """Permutation of range(n); an all-zero tape gives the identity."""
        idx = list(range(n))
        for i in range(n - 1):
            j = i + self.draw(n - i, label)
            idx[i], idx[j] = idx[j], idx[i]
        return idx

    def shuffled(self, seq, label=""):
        seq = list(seq)
        return [seq[i] for i in self.perm(len(seq), label)]

    def subset(self, seq, p=0.5, label=""):
        return [x for x in seq if self.chance(p, label)]

    @contextmanager
    def span(self, label=""):
        start = len(self.values)
        rec = [start, start, label]
        self.spans.append(rec)
        try:
            yield
        finally:
            rec[1] = len(self.values)

    def to_json(self):
        return {"seed": self.seed, "values": list(self.values),
                "spans": [list(s) for s in self.spans if s[1] > s[0]]}
