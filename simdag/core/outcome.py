"""Result of one simulated run."""


class Violation(Exception):
    """Raised by oracles inside an engine; caught by the engine wrapper."""

    def __init__(self, cls, detail, site="", extra=None):
        Exception.__init__(self, "%s: %s" % (cls, detail))
        self.cls = cls
        self.detail = detail
        self.site = site
        self.extra = extra or {}


class Discard(Exception):
    def __init__(self, reason):
        Exception.__init__(self, reason)
        self.reason = reason


class RunTimeout(BaseException):
    """Per-run wall alarm: real code under test did not terminate."""


class Outcome:
    __slots__ = ("kind", "cls", "detail", "site", "decoded", "digest",
                 "counters", "dkey", "nontrivial", "sample", "extra")

    def __init__(self, kind="ok", cls="", detail="", site="", decoded=None,
                 digest="", counters=None, dkey="", nontrivial=False,
                 sample=None, extra=None):
        self.kind = kind            # ok | violation | discard | harness_error
        self.cls = cls
        self.detail = detail
        self.site = site
        self.decoded = decoded
        self.digest = digest
        self.counters = counters or {}
        self.dkey = dkey            # key for "distinct" counting
        self.nontrivial = nontrivial
        self.sample = sample
        self.extra = extra

    @property
    def sig(self):
        return "%s|%s" % (self.cls, self.site)

    def to_dict(self):
        return {k: getattr(self, k) for k in self.__slots__}

    @classmethod
    def from_dict(cls, d):
        return cls(**d)
