"""Evidence file writer with schema validation."""
import json
import os


def _own_validate(ev):
    for k in ("property_id", "tier", "seed", "level", "coverage", "wall_s"):
        if k not in ev:
            raise ValueError("evidence lacks %s" % k)
    if ev["tier"] not in ("quick", "thorough"):
        raise ValueError("bad tier")
    if not isinstance(ev["seed"], int):
        raise ValueError("seed not int")
    cov = ev["coverage"]
    if ev["level"] in ("exploration", "fault_enumeration"):
        for k in ("evaluations", "distinct_nontrivial", "rule", "samples"):
            if k not in cov:
                raise ValueError("coverage lacks %s" % k)
        if cov["evaluations"] < 1 or cov["distinct_nontrivial"] < 2:
            raise ValueError("coverage too small: %r/%r" % (cov["evaluations"],
                                                            cov["distinct_nontrivial"]))
        if not isinstance(cov["samples"], list) or not cov["samples"]:
            raise ValueError("samples empty")


def validate(ev):
    _own_validate(ev)
    try:
        import jsonschema
    except ImportError:
        return "own"
    path = "/root/.vp/EVIDENCE.schema.json"
    if not os.path.exists(path):
        path = os.path.join(os.environ.get("VERIF_HOME", "/verif"), "schemas",
                            "EVIDENCE.schema.json")
    if not os.path.exists(path):
        return "own"
    with open(path) as f:
        schema = json.load(f)
    jsonschema.validate(ev, schema)
    return "jsonschema"


def write(path, ev):
    how = validate(ev)
    ev["coverage"]["validated_by"] = how
    tmp = path + ".tmp"
    os.makedirs(os.path.dirname(path), exist_ok=True)
    with open(tmp, "w") as f:
        json.dump(ev, f, indent=1, sort_keys=True, default=str)
        f.write("\n")
    os.replace(tmp, path)
