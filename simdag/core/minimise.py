"""Tape minimisation: delete spans, zero spans, lower values; keep a candidate
only if it yields a violation with the same class (and site)."""
import time

from simdag.core.runner import execute
from simdag.core.tape import Tape


def _run(prop, values, env):
    tape = Tape(recorded=values)
    out, ctx = execute(prop, tape, env)
    return out, tape


def minimise(prop, values, env, want_sig, max_runs=1500, max_s=60.0, same=None):
    """Returns (values, outcome, tape, n_runs)."""
    t0 = time.time()
    runs = 0
    if same is None:
        def same(out):
            return out.kind == "violation" and out.sig == want_sig

    best_out, best_tape = _run(prop, values, env)
    runs += 1
    if not same(best_out):
        return None, best_out, best_tape, runs
    best = list(best_tape.values)

    def budget_ok():
        return runs < max_runs and time.time() - t0 < max_s

    def attempt(cand):
        nonlocal best, best_out, best_tape, runs
        if cand == best:
            return False
        out, tape = _run(prop, cand, env)
        runs += 1
        if same(out):
            newv = list(tape.values)
            # accept only if not "larger"
            if (len(newv), sum(newv)) <= (len(best), sum(best)) or len(newv) < len(best):
                best, best_out, best_tape = newv, out, tape
                return True
        return False

    improved = True
    rounds = 0
    while improved and budget_ok() and rounds < 8:
        improved = False
        rounds += 1
        # 1. delete spans, largest first
        spans = sorted([s for s in best_tape.spans if s[1] > s[0]],
                       key=lambda s: -(s[1] - s[0]))
        i = 0
        while i < len(spans) and budget_ok():
            s = spans[i]
            if s[1] <= len(best):
                cand = best[:s[0]] + best[s[1]:]
                if attempt(cand):
                    improved = True
                    spans = sorted([x for x in best_tape.spans if x[1] > x[0]],
                                   key=lambda x: -(x[1] - x[0]))
                    i = 0
                    continue
            i += 1
        # 2. zero spans
        spans = sorted([s for s in best_tape.spans if s[1] > s[0]],
                       key=lambda s: -(s[1] - s[0]))
        for s in spans:
            if not budget_ok():
                break
            if s[1] <= len(best) and any(best[s[0]:s[1]]):
                cand = best[:s[0]] + [0] * (s[1] - s[0]) + best[s[1]:]
                if attempt(cand):
                    improved = True
        # 3. truncate tail
        n = len(best)
        cut = n // 2
        while cut >= 1 and budget_ok():
            if attempt(best[:len(best) - cut]):
                improved = True
            else:
                cut //= 2
        # 4. delete chunks of values
        size = 8
        while size >= 1 and budget_ok():
            pos = 0
            while pos < len(best) and budget_ok():
                if not attempt(best[:pos] + best[pos + size:]):
                    pos += size
                else:
                    improved = True
            size //= 2
        # 5. lower single values
        pos = 0
        while pos < len(best) and budget_ok():
            v = best[pos]
            if v > 0:
                if attempt(best[:pos] + [0] + best[pos + 1:]):
                    improved = True
                elif v > 1 and attempt(best[:pos] + [v - 1] + best[pos + 1:]):
                    improved = True
            pos += 1
    return best, best_out, best_tape, runs
