"""Run execution: one run (with wall alarm), blocks of runs in a fork pool."""
import faulthandler
import hashlib
import importlib
import os
import signal
import sys
import time
import traceback

from simdag.core.log import EventLog
from simdag.core.outcome import Discard, Outcome, RunTimeout, Violation
from simdag.core.tape import Tape, derive_seed

# property -> (engine module, function name)
REGISTRY = {
    "C01": ("simdag.engines.stepper", "run_c01"),
    "C11": ("simdag.engines.stepper", "run_c11"),
    "C02": ("simdag.engines.sched", "run_c02"),
    "C04": ("simdag.engines.sched_c04", "run_c04"),
    "C05": ("simdag.engines.sched_c05", "run_c05"),
    "C16": ("simdag.engines.sched_c16", "run_c16"),
    "C13": ("simdag.engines.names", "run_c13"),
    "C14": ("simdag.engines.determinism", "run_c14"),
    "C15": ("simdag.engines.determinism", "run_c15"),
    "C03": ("simdag.engines.fortran", "run_c03"),
    "C12": ("simdag.engines.fortran", "run_c12"),
}

RUN_WALL_LIMIT_S = {"default": 30, "C03": 120, "C12": 120, "C14": 120, "C15": 120}


class RunCtx:
    """Everything an engine needs for one run."""

    def __init__(self, prop, tape, env):
        self.prop = prop
        self.tape = tape
        self.env = env
        self.tier = env.get("tier", "quick")
        self.log = EventLog(keep=bool(env.get("keep_log")))
        self.counters = {}
        self.decoded = {}
        self.nontrivial = False
        self.dkey_parts = []
        self.sample = None

    def count(self, name, n=1):
        self.counters[name] = self.counters.get(name, 0) + n

    def dkey(self, *parts):
        self.dkey_parts.extend(parts)

    @property
    def thorough(self):
        return self.tier == "thorough"


def _exception_owner(e):
    """Innermost traceback frame that belongs to dagrt (code under test, incl.
    generated code) or to the harness; third-party frames are skipped."""
    repo = os.path.realpath(os.environ.get("VERIF_REPO", "/repo")) + os.sep
    home = os.path.realpath(os.environ.get("VERIF_HOME", "/verif")) + os.sep
    for fr in reversed(traceback.extract_tb(e.__traceback__)):
        fn = fr.filename
        if fn == "<generated>" or os.path.realpath(fn).startswith(repo):
            return "dagrt", fr.name
        if os.path.realpath(fn).startswith(home):
            return "harness", fr.name
    return "harness", "?"


def _alarm_handler(signum, frame):
    raise RunTimeout()


def check_repo_import():
    import dagrt
    repo = os.path.realpath(os.environ.get("VERIF_REPO", "/repo"))
    got = os.path.realpath(os.path.dirname(dagrt.__file__))
    if not got.startswith(repo + os.sep):
        raise RuntimeError("dagrt imported from %s, not from VERIF_REPO=%s"
                           % (got, repo))


def get_engine(prop):
    modname, fname = REGISTRY[prop]
    mod = importlib.import_module(modname)
    return getattr(mod, fname)


def _quiet_numerics():
    import warnings
    try:
        import numpy as np
        np.seterr(all="ignore")
        from simdag.seams.memory import own_uninitialised_memory
        own_uninitialised_memory()
    except Exception:
        pass
    warnings.filterwarnings("ignore")


def execute(prop, tape, env):
    """One run: pure function of (tape, env, code under VERIF_REPO)."""
    _quiet_numerics()
    fn = get_engine(prop)
    ctx = RunCtx(prop, tape, env)
    limit = RUN_WALL_LIMIT_S.get(prop, RUN_WALL_LIMIT_S["default"])
    old = signal.signal(signal.SIGALRM, _alarm_handler)
    signal.alarm(limit)
    kind, cls, detail, site, extra = "ok", "", "", "", None
    try:
        try:
            fn(ctx)
        finally:
            signal.alarm(0)
    except Violation as v:
        kind, cls, detail, site, extra = "violation", v.cls, v.detail, v.site, v.extra
    except Discard as d:
        kind, cls = "discard", d.reason
    except RunTimeout:
        kind, cls, detail, site = ("violation", "hang",
                "code under test did not terminate within %d s wall" % limit,
                ctx.decoded.get("phase_of_run", ""))
    except RecursionError:
        kind, cls, detail = "harness_error", "RecursionError", traceback.format_exc()[-1500:]
    except Exception as e:
        owner, fname = _exception_owner(e)
        if owner == "dagrt":
            # raised underneath dagrt code that the harness called with valid input
            kind, cls, site = "violation", "exception-in-dagrt:" + type(e).__name__, fname
            detail = "%r\n%s" % (e, "".join(traceback.format_exception(type(e), e, e.__traceback__)[-6:]))
        else:
            kind, cls, detail = "harness_error", "exception", traceback.format_exc()[-3000:]
    finally:
        signal.signal(signal.SIGALRM, old)
    dk = hashlib.sha256(repr(ctx.dkey_parts).encode()).hexdigest()[:16]
    # run digest: event log + decoded workload/schedule/faults + outcome + counters + consumed tape
    import json as _json
    h = hashlib.sha256()
    h.update(ctx.log.digest().encode())
    try:
        h.update(_json.dumps(ctx.decoded, sort_keys=True, default=str).encode())
    except Exception:
        h.update(repr(sorted(ctx.decoded)).encode())
    h.update(repr((kind, cls, site, detail if kind != "harness_error" else "")).encode())
    # (counters named nondet:* report things the simulator does not own, e.g. whether the allocator reused an
    # address; they are reported in the evidence but are no part of the run's identity)
    h.update(repr(sorted((k, v) for k, v in ctx.counters.items() if not k.startswith("nondet:"))).encode())
    h.update(repr(tape.values).encode())
    h.update(dk.encode())
    return Outcome(kind=kind, cls=cls, detail=detail, site=site,
                   decoded=ctx.decoded if kind == "violation" or env.get("want_decoded") else None,
                   digest=h.hexdigest(), counters=ctx.counters, dkey=dk,
                   nontrivial=ctx.nontrivial, sample=ctx.sample, extra=extra), ctx


def run_seed(verif_seed, prop, index):
    return derive_seed(verif_seed, prop, index)


def run_block(args):
    """Worker entry: a block of run indices.  Returns aggregated stats."""
    prop, env, verif_seed, indices, want_digests, block_limit = args
    faulthandler.dump_traceback_later(block_limit, exit=True)
    try:
        check_repo_import()
        res = {"n": 0, "kinds": {}, "discards": {}, "counters": {}, "dkeys": [],
               "samples": [], "violations": [], "harness": [], "digests": {},
               "tape_len": 0, "cpu_s": 0.0}
        t0 = time.process_time()
        for idx in indices:
            seed = run_seed(verif_seed, prop, idx)
            tape = Tape(seed=seed)
            out, _ctx = execute(prop, tape, env)
            res["n"] += 1
            res["kinds"][out.kind] = res["kinds"].get(out.kind, 0) + 1
            res["tape_len"] += len(tape.values)
            for k, v in out.counters.items():
                res["counters"][k] = res["counters"].get(k, 0) + v
            if out.kind == "discard":
                res["discards"][out.cls] = res["discards"].get(out.cls, 0) + 1
            elif out.kind == "violation":
                res["violations"].append({"index": idx, "seed": seed, "cls": out.cls,
                                          "site": out.site, "detail": out.detail[:2000],
                                          "values": list(tape.values)})
            elif out.kind == "harness_error":
                res["harness"].append({"index": idx, "seed": seed, "cls": out.cls,
                                       "detail": out.detail})
            if out.kind in ("ok", "violation") and out.nontrivial:
                res["dkeys"].append(out.dkey)
            if out.sample is not None and len(res["samples"]) < 2 and out.kind == "ok" \
                    and out.nontrivial:
                res["samples"].append(out.sample)
            if want_digests:
                res["digests"][idx] = out.kind + ":" + out.cls + ":" + out.digest
        res["cpu_s"] = time.process_time() - t0
        return res
    finally:
        faulthandler.cancel_dump_traceback_later()


class HarnessFailure(Exception):
    pass


def merge(total, res):
    total["n"] += res["n"]
    total["tape_len"] += res["tape_len"]
    total["cpu_s"] += res["cpu_s"]
    for key in ("kinds", "discards", "counters"):
        for k, v in res[key].items():
            total[key][k] = total[key].get(k, 0) + v
    total["dkeys"].update(res["dkeys"])
    if len(total["samples"]) < 3:
        total["samples"].extend(res["samples"][:3 - len(total["samples"])])
    total["violations"].extend(res["violations"])
    total["harness"].extend(res["harness"])
    total["digests"].update(res["digests"])


def new_total():
    return {"n": 0, "kinds": {}, "discards": {}, "counters": {}, "dkeys": set(),
            "samples": [], "violations": [], "harness": [], "digests": {},
            "tape_len": 0, "cpu_s": 0.0}


def run_batch(prop, env, verif_seed, n_runs=None, budget_s=None, workers=16,
              block=None, want_digests=False, block_limit=900, first_index=0,
              stop_after_violations=200):
    """Run indices first_index.. in order; either n_runs of them or until the
    wall budget is used.  Returns merged totals."""
    from concurrent.futures import ProcessPoolExecutor, wait, FIRST_COMPLETED
    import multiprocessing as mp
    total = new_total()
    if block is None:
        block = 25
    t_start = time.time()
    if workers <= 1:
        idx = first_index
        while True:
            if n_runs is not None and idx >= first_index + n_runs:
                break
            if budget_s is not None and time.time() - t_start > budget_s:
                break
            hi = idx + block
            if n_runs is not None:
                hi = min(hi, first_index + n_runs)
            res = run_block((prop, env, verif_seed, list(range(idx, hi)),
                             want_digests, block_limit))
            merge(total, res)
            idx = hi
            if len(total["violations"]) >= stop_after_violations:
                break
        total["wall_s"] = time.time() - t_start
        return total

    ctx = mp.get_context("fork")
    ex = ProcessPoolExecutor(max_workers=workers, mp_context=ctx)
    pending = {}
    next_idx = first_index
    end_idx = None if n_runs is None else first_index + n_runs
    try:
        def submit_more():
            nonlocal next_idx
            while len(pending) < workers * 2:
                if end_idx is not None and next_idx >= end_idx:
                    return
                if budget_s is not None and time.time() - t_start > budget_s:
                    return
                if len(total["violations"]) >= stop_after_violations:
                    return
                hi = next_idx + block
                if end_idx is not None:
                    hi = min(hi, end_idx)
                fut = ex.submit(run_block, (prop, env, verif_seed,
                                            list(range(next_idx, hi)),
                                            want_digests, block_limit))
                pending[fut] = (next_idx, hi, time.time())
                next_idx = hi
        submit_more()
        while pending:
            done, _ = wait(list(pending), timeout=30, return_when=FIRST_COMPLETED)
            now = time.time()
            for fut in done:
                lo, hi, _t = pending.pop(fut)
                try:
                    res = fut.result()
                except Exception as e:   # BrokenProcessPool, worker killed by faulthandler, ...
                    raise HarnessFailure("worker failed on runs %d..%d: %r" % (lo, hi, e))
                merge(total, res)
            for fut, (lo, hi, t0) in pending.items():
                if now - t0 > block_limit + 60:
                    raise HarnessFailure("block %d..%d exceeded %d s" % (lo, hi, block_limit))
            submit_more()
    finally:
        procs = list(getattr(ex, "_processes", {}).values())
        ex.shutdown(wait=False, cancel_futures=True)
        for p in procs:
            try:
                if p.is_alive():
                    p.terminate()
            except Exception:
                pass
    total["wall_s"] = time.time() - t_start
    return total
