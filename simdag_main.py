import sys
from simdag.cli import main
sys.exit(main(sys.argv[1:]))
